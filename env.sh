# sourced by every script: offline Go 1.24 toolchain (the one /repo needs)
G=/root/go/pkg/mod/golang.org/toolchain@v0.0.1-go1.24.0.linux-amd64
if [ -d "$G/bin" ]; then PATH=$G/bin:$PATH; fi
export PATH GOTOOLCHAIN=local GOFLAGS=-mod=mod GOPROXY=off GOSUMDB=off GONOSUMDB=* GONOSUMCHECK=1 GOFLAGS
