// Package tape is the single source of every choice a simulated run makes.
//
// A fresh tape draws from a splitmix64 stream seeded from (VERIF_SEED,
// property, run index) and records every draw; a replayed tape feeds recorded
// draws back (reduced modulo the bound, 0 when exhausted). Generators are
// written so that 0 is the simplest choice, which is what makes tape-level
// shrinking (shrink.go) produce small counterexamples.
//
// Nothing in this package reads a clock, the environment or a Go map order.
package tape

import "fmt"

type sm64 struct{ s uint64 }

func (r *sm64) next() uint64 {
	r.s += 0x9e3779b97f4a7c15
	z := r.s
	z = (z ^ (z >> 30)) * 0xbf58476d1ce4e5b9
	z = (z ^ (z >> 27)) * 0x94d049bb133111eb
	return z ^ (z >> 31)
}

// Mix hashes integers into one seed (order sensitive).
func Mix(vs ...uint64) uint64 {
	r := sm64{0x243f6a8885a308d3}
	h := uint64(0)
	for _, v := range vs {
		r.s ^= v
		h = r.next() ^ (h << 1)
	}
	return h
}

// MixS hashes a string into a seed component.
func MixS(s string) uint64 {
	h := uint64(1469598103934665603)
	for i := 0; i < len(s); i++ {
		h ^= uint64(s[i])
		h *= 1099511628211
	}
	return h
}

// Tape is one linear stream of bounded choices. Sub-streams ("forks") are
// separate Tapes kept in a Set so that a draw added in one place does not
// shift the choices of another.
type Tape struct {
	rng    sm64
	Rec    []uint32
	replay []uint32
	isRep  bool
	pos    int
}

func New(seed uint64) *Tape { return &Tape{rng: sm64{seed}} }

func Replay(vals []uint32) *Tape {
	return &Tape{replay: append([]uint32(nil), vals...), isRep: true}
}

// Intn returns a value in [0,n). n<=1 draws nothing and returns 0.
func (t *Tape) Intn(n int) int {
	if n <= 1 {
		return 0
	}
	var v uint32
	if t.isRep {
		if t.pos < len(t.replay) {
			v = t.replay[t.pos] % uint32(n)
		}
		t.pos++
	} else {
		v = uint32(t.rng.next() % uint64(n))
	}
	t.Rec = append(t.Rec, v)
	return int(v)
}

// Force records v%n as the outcome of a draw among n without consulting the
// generator: it lets a check enumerate a finite table through the run index
// while the choice still lives on the tape (a replayed tape returns the
// recorded value, so replay and shrinking work as for any other draw).
func (t *Tape) Force(n, v int) int {
	if n <= 1 {
		return 0
	}
	if t.isRep {
		return t.Intn(n)
	}
	t.rng.next() // keep the stream position in step with an ordinary draw
	x := uint32(v % n)
	t.Rec = append(t.Rec, x)
	return int(x)
}

// Bool is Intn(2)==1.
func (t *Tape) Bool() bool { return t.Intn(2) == 1 }

// Chance returns true with probability num/den (false is the simple choice).
func (t *Tape) Chance(num, den int) bool {
	if num <= 0 {
		return false
	}
	return t.Intn(den) >= den-num
}

// Range returns a value in [lo,hi].
func (t *Tape) Range(lo, hi int) int { return lo + t.Intn(hi-lo+1) }

// Pos is the number of draws made so far.
func (t *Tape) Pos() int { return len(t.Rec) }

// Set is a named collection of forks; the identity of a run.
type Set struct {
	Seed  uint64
	Index int // run / case index of a fresh tape; -1 when replaying
	forks map[string]*Tape
	order []string
	rep   map[string][]uint32
	isRep bool
}

func NewSet(seed uint64) *Set { return &Set{Seed: seed, Index: -1, forks: map[string]*Tape{}} }

func ReplaySet(seed uint64, rec map[string][]uint32) *Set {
	return &Set{Seed: seed, Index: -1, forks: map[string]*Tape{}, rep: rec, isRep: true}
}

// Fork returns the named sub-stream, creating it on first use.
func (s *Set) Fork(name string) *Tape {
	if t, ok := s.forks[name]; ok {
		return t
	}
	var t *Tape
	if s.isRep {
		t = Replay(s.rep[name])
	} else {
		t = New(Mix(s.Seed, MixS(name)))
	}
	s.forks[name] = t
	s.order = append(s.order, name)
	return t
}

// Recorded returns the draws of every fork (fork names in creation order are
// in Names). The returned map is freshly built; no map is ranged here.
func (s *Set) Recorded() map[string][]uint32 {
	out := make(map[string][]uint32, len(s.order))
	for _, n := range s.order {
		out[n] = append([]uint32(nil), s.forks[n].Rec...)
	}
	return out
}

func (s *Set) Names() []string { return append([]string(nil), s.order...) }

// Total number of draws over all forks.
func (s *Set) Total() int {
	n := 0
	for _, name := range s.order {
		n += len(s.forks[name].Rec)
	}
	return n
}

func (s *Set) String() string { return fmt.Sprintf("tapeset(seed=%d forks=%v)", s.Seed, s.order) }
