package tape

import (
	"sort"
	"time"
)

// Rec is the recorded identity of one run: draws per fork.
type Rec map[string][]uint32

func (r Rec) Clone() Rec {
	out := make(Rec, len(r))
	for _, k := range r.names() {
		out[k] = append([]uint32(nil), r[k]...)
	}
	return out
}

func (r Rec) names() []string {
	ns := make([]string, 0, len(r))
	for k := range r { // order fixed by the sort below
		ns = append(ns, k)
	}
	sort.Strings(ns)
	return ns
}

func (r Rec) Size() (n int, sum uint64) {
	for _, k := range r.names() {
		n += len(r[k])
		for _, v := range r[k] {
			sum += uint64(v)
		}
	}
	return
}

// Shrink minimises rec while fails(candidate) stays true. fails must be
// deterministic. Stops after maxEvals evaluations or when the deadline
// passes (deadline is wall clock: it bounds effort only; the result is
// always a tape for which fails returned true).
func Shrink(rec Rec, fails func(Rec) bool, maxEvals int, budget time.Duration) (Rec, int) {
	best := rec.Clone()
	evals := 0
	deadline := time.Now().Add(budget)
	try := func(c Rec) bool {
		if evals >= maxEvals || time.Now().After(deadline) {
			return false
		}
		evals++
		if fails(c) {
			best = c
			return true
		}
		return false
	}
	for round := 0; round < 8; round++ {
		n0, s0 := best.Size()
		for _, fork := range best.names() {
			// delete spans
			for size := len(best[fork]); size >= 1; size /= 2 {
				for i := 0; i+size <= len(best[fork]); {
					c := best.Clone()
					c[fork] = append(append([]uint32(nil), c[fork][:i]...), c[fork][i+size:]...)
					if !try(c) {
						i += size
					}
				}
			}
			// zero spans
			for size := len(best[fork]); size >= 1; size /= 2 {
				for i := 0; i+size <= len(best[fork]); i += size {
					allz := true
					for _, v := range best[fork][i : i+size] {
						if v != 0 {
							allz = false
						}
					}
					if allz {
						continue
					}
					c := best.Clone()
					for j := i; j < i+size; j++ {
						c[fork][j] = 0
					}
					try(c)
				}
			}
			// lower individual values
			for i := 0; i < len(best[fork]); i++ {
				for best[fork][i] > 0 {
					v := best[fork][i]
					c := best.Clone()
					c[fork][i] = v / 2
					if try(c) {
						continue
					}
					c = best.Clone()
					c[fork][i] = v - 1
					if !try(c) {
						break
					}
				}
			}
		}
		n1, s1 := best.Size()
		if n1 == n0 && s1 == s0 {
			break
		}
		if evals >= maxEvals || time.Now().After(deadline) {
			break
		}
	}
	return best, evals
}
