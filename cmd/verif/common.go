package main

import (
	"bytes"
	"encoding/json"
	"fmt"
	"io"
	"io/fs"
	"os"
	"os/exec"
	"path/filepath"
	"sort"
	"strconv"
	"strings"
	"syscall"
	"time"
)

const toolchainDir = "/root/go/pkg/mod/golang.org/toolchain@v0.0.1-go1.24.0.linux-amd64"

func init() {
	// exec.Command resolves "go" through this process's PATH, so the Go 1.24
	// toolchain /repo needs must be first on it (offline, GOTOOLCHAIN=local).
	if _, err := os.Stat(toolchainDir + "/bin/go"); err == nil {
		os.Setenv("PATH", toolchainDir+"/bin:"+os.Getenv("PATH"))
	}
}

var verifRoot = func() string {
	if v := os.Getenv("VERIF_ROOT"); v != "" {
		return v
	}
	return "/verif"
}()

// evidenceDir / replaysDir: /verif/evidence and /verif/replays unless redirected (runs against a
// patched scratch copy of the repository must not overwrite the evidence of the real tree).
func evidenceDir() string {
	if v := os.Getenv("VERIF_EVIDENCE_DIR"); v != "" {
		return v
	}
	return filepath.Join(verifRoot, "evidence")
}

func replaysDir() string {
	if v := os.Getenv("VERIF_REPLAYS_DIR"); v != "" {
		return v
	}
	return filepath.Join(verifRoot, "replays")
}

func repoDir() string {
	if v := os.Getenv("VERIF_REPO"); v != "" {
		return v
	}
	return "/repo"
}

// goEnv is the environment for every go / goderive sub-process: offline,
// the Go 1.24 toolchain /repo needs first on PATH.
func goEnv(extra ...string) []string {
	path := os.Getenv("PATH")
	if _, err := os.Stat(toolchainDir + "/bin/go"); err == nil && !strings.HasPrefix(path, toolchainDir+"/bin") {
		path = toolchainDir + "/bin:" + path
	}
	env := []string{}
	for _, kv := range os.Environ() {
		k := kv[:strings.IndexByte(kv, '=')]
		switch k {
		case "PATH", "GOFLAGS", "GOPROXY", "GOSUMDB", "GOTOOLCHAIN", "GO111MODULE", "GOPATH", "GOWORK", "CGO_ENABLED", "GOMAXPROCS", "VERIF_PLAN", "VERIF_TRACE":
			continue
		}
		env = append(env, kv)
	}
	env = append(env, "PATH="+path, "GOFLAGS=-mod=mod", "GOPROXY=off", "GOSUMDB=off", "GOTOOLCHAIN=local", "GOWORK=off", "CGO_ENABLED=0")
	return append(env, extra...)
}

type cmdResult struct {
	Exit     int
	Stdout   string
	Stderr   string
	TimedOut bool
	Wall     time.Duration
}

// runCmd runs a command with a wall-clock watchdog.
func runCmd(dir string, env []string, timeout time.Duration, name string, args ...string) cmdResult {
	cmd := exec.Command(name, args...)
	cmd.Dir = dir
	cmd.Env = env
	var so, se bytes.Buffer
	cmd.Stdout, cmd.Stderr = &so, &se
	start := time.Now()
	if err := cmd.Start(); err != nil {
		return cmdResult{Exit: -1, Stderr: err.Error()}
	}
	done := make(chan error, 1)
	go func() { done <- cmd.Wait() }()
	var err error
	timedOut := false
	select {
	case err = <-done:
	case <-time.After(timeout):
		cmd.Process.Kill()
		err = <-done
		timedOut = true
	}
	r := cmdResult{Stdout: so.String(), Stderr: se.String(), TimedOut: timedOut, Wall: time.Since(start)}
	if err != nil {
		if ee, ok := err.(*exec.ExitError); ok {
			r.Exit = ee.ExitCode()
		} else {
			r.Exit = -1
		}
	}
	return r
}

func mustRun(what, dir string, env []string, timeout time.Duration, name string, args ...string) cmdResult {
	r := runCmd(dir, env, timeout, name, args...)
	if r.Exit != 0 || r.TimedOut {
		harnessTrouble("%s failed (exit %d, timeout %v) in %s:\n%s\n%s", what, r.Exit, r.TimedOut, dir, r.Stdout, r.Stderr)
	}
	return r
}

var cleanupDirs []string

// harnessTrouble is exit 2: never a violation, always loud.
func harnessTrouble(f string, a ...any) {
	fmt.Fprintf(os.Stderr, "HARNESS-TROUBLE: "+f+"\n", a...)
	if curEvidence != nil {
		curEvidence.Coverage["inconclusive"] = true
		curEvidence.Coverage["inconclusive_reason"] = fmt.Sprintf(f, a...)
		curEvidence.write()
	}
	cleanup()
	os.Exit(2)
}

func cleanup() {
	if os.Getenv("VERIF_KEEP") != "" {
		for _, d := range cleanupDirs {
			fmt.Fprintln(os.Stderr, "kept scratch:", d)
		}
		return
	}
	for _, d := range cleanupDirs {
		os.RemoveAll(d)
	}
	cleanupDirs = nil
}

func scratchDir(tag string) string {
	base := os.Getenv("VERIF_SCRATCH")
	if base == "" {
		base = "/dev/shm"
		if _, err := os.Stat(base); err != nil {
			base = os.TempDir()
		}
	}
	sweepStaleScratch(base)
	d, err := os.MkdirTemp(base, "verif."+tag+".")
	if err != nil {
		fmt.Fprintln(os.Stderr, "cannot create scratch dir:", err)
		os.Exit(2)
	}
	os.WriteFile(filepath.Join(d, "owner.pid"), []byte(strconv.Itoa(os.Getpid())), 0o644)
	cleanupDirs = append(cleanupDirs, d)
	return d
}

// sweepStaleScratch removes scratch directories whose owning process is gone
// (a check that was killed cannot run its own cleanup).
func sweepStaleScratch(base string) {
	ents, err := os.ReadDir(base)
	if err != nil {
		return
	}
	for _, e := range ents {
		if !e.IsDir() || !strings.HasPrefix(e.Name(), "verif.") {
			continue
		}
		d := filepath.Join(base, e.Name())
		b, err := os.ReadFile(filepath.Join(d, "owner.pid"))
		if err != nil {
			continue
		}
		pid, err := strconv.Atoi(strings.TrimSpace(string(b)))
		if err != nil {
			continue
		}
		if err := syscall.Kill(pid, 0); err == syscall.ESRCH {
			os.RemoveAll(d)
		}
	}
}

// copyTree copies src to dst, skipping names in skip (matched on base name).
func copyTree(src, dst string, skip map[string]bool) error {
	return filepath.WalkDir(src, func(p string, d fs.DirEntry, err error) error {
		if err != nil {
			return err
		}
		rel, _ := filepath.Rel(src, p)
		if rel != "." && skip[d.Name()] {
			if d.IsDir() {
				return filepath.SkipDir
			}
			return nil
		}
		target := filepath.Join(dst, rel)
		if d.IsDir() {
			return os.MkdirAll(target, 0o755)
		}
		info, err := d.Info()
		if err != nil {
			return err
		}
		if info.Mode()&fs.ModeSymlink != 0 {
			l, err := os.Readlink(p)
			if err != nil {
				return err
			}
			return os.Symlink(l, target)
		}
		if !info.Mode().IsRegular() {
			return nil
		}
		in, err := os.Open(p)
		if err != nil {
			return err
		}
		defer in.Close()
		out, err := os.OpenFile(target, os.O_CREATE|os.O_WRONLY|os.O_TRUNC, info.Mode().Perm())
		if err != nil {
			return err
		}
		if _, err := io.Copy(out, in); err != nil {
			out.Close()
			return err
		}
		return out.Close()
	})
}

// copyRepo copies the working tree of the repository (not .git, not the
// vendor directory's absence: everything else as it is on disk) to dst.
func copyRepo(dst string) {
	if err := copyTree(repoDir(), dst, map[string]bool{".git": true}); err != nil {
		harnessTrouble("copying %s: %v", repoDir(), err)
	}
}

func repoRev() string {
	r := runCmd(repoDir(), os.Environ(), 20*time.Second, "git", "rev-parse", "--short", "HEAD")
	rev := strings.TrimSpace(r.Stdout)
	d := runCmd(repoDir(), os.Environ(), 20*time.Second, "git", "status", "--porcelain", "--untracked-files=no")
	if strings.TrimSpace(d.Stdout) != "" {
		rev += "+dirty"
	}
	return rev
}

// buildGoderive builds the plain goderive binary from the copy.
func buildGoderive(copyDir, out string) {
	mustRun("go build goderive", copyDir, goEnv(), 10*time.Minute, "go", "build", "-o", out, ".")
}

// ---------------------------------------------------------------- evidence

type Evidence struct {
	PropertyID  string         `json:"property_id"`
	Tier        string         `json:"tier"`
	Seed        int64          `json:"seed"`
	Level       string         `json:"level"`
	Coverage    map[string]any `json:"coverage"`
	Assumptions []string       `json:"assumptions"`
	WallS       float64        `json:"wall_s"`
	Violations  int            `json:"violations"`
	start       time.Time
}

var curEvidence *Evidence

func newEvidence(id, tier string, seed int64, level string) *Evidence {
	e := &Evidence{PropertyID: id, Tier: tier, Seed: seed, Level: level, Coverage: map[string]any{}, start: time.Now()}
	curEvidence = e
	return e
}

func (e *Evidence) write() {
	e.WallS = time.Since(e.start).Seconds()
	dir := evidenceDir()
	os.MkdirAll(dir, 0o755)
	b, _ := json.MarshalIndent(e, "", " ")
	tmp := filepath.Join(dir, e.PropertyID+".json.tmp")
	os.WriteFile(tmp, append(b, '\n'), 0o644)
	os.Rename(tmp, filepath.Join(dir, e.PropertyID+".json"))
}

// ---------------------------------------------------------------- options

type checkOpts struct {
	id   string
	tier string
	seed int64
	jobs int
}

func parseCheckOpts(args []string) checkOpts {
	o := checkOpts{tier: "quick", jobs: 16}
	if t := os.Getenv("VERIF_TIER"); t != "" {
		o.tier = t
	}
	if s := os.Getenv("VERIF_SEED"); s != "" {
		if v, err := strconv.ParseInt(s, 10, 64); err == nil {
			o.seed = v
		}
	}
	if j := os.Getenv("VERIF_JOBS"); j != "" {
		if v, err := strconv.Atoi(j); err == nil && v > 0 {
			o.jobs = v
		}
	}
	for i := 0; i < len(args); i++ {
		switch args[i] {
		case "--tier":
			i++
			o.tier = args[i]
		case "--seed":
			i++
			o.seed, _ = strconv.ParseInt(args[i], 10, 64)
		case "--jobs":
			i++
			o.jobs, _ = strconv.Atoi(args[i])
		default:
			if o.id == "" {
				o.id = args[i]
			}
		}
	}
	if o.tier != "quick" && o.tier != "thorough" {
		o.tier = "quick"
	}
	return o
}

func sortedKeysInt(m map[string]int) []string {
	ks := make([]string, 0, len(m))
	for k := range m {
		ks = append(ks, k)
	}
	sort.Strings(ks)
	return ks
}

// ------------------------------------------------------------ known findings

type KnownFinding struct {
	Property string            `json:"property"`
	Status   string            `json:"status"` // "known" | "fixed"
	ID       string            `json:"id"`
	Match    map[string]string `json:"match"`
	Text     string            `json:"text"`
	Commit   string            `json:"commit,omitempty"`
	Input    *DirectedInput    `json:"input,omitempty"` // the specific failing input, run by the check on every run
}

// DirectedInput is the committed reproducer of a known finding.
type DirectedInput struct {
	Versions []map[string]string `json:"versions"` // file sets (relative path -> content); histories use more than one
	Flags    []string            `json:"flags,omitempty"`
	Args     []string            `json:"args,omitempty"`
	// MustReject: the input asks a plugin for a type outside its supported set, so a run that exits 0 fails (C09)
	MustReject bool `json:"must_reject,omitempty"`
}

func loadKnownFindings() []KnownFinding {
	b, err := os.ReadFile(filepath.Join(verifRoot, "known_findings.json"))
	if err != nil {
		return nil
	}
	var kf struct {
		Findings []KnownFinding `json:"findings"`
	}
	if err := json.Unmarshal(b, &kf); err != nil {
		harnessTrouble("known_findings.json: %v", err)
	}
	return kf.Findings
}

// matchKnown returns the known (not fixed) finding whose match keys are all
// substrings of the corresponding facts of the violation.
func matchKnown(kfs []KnownFinding, prop string, facts map[string]string) *KnownFinding {
	for i := range kfs {
		k := &kfs[i]
		if k.Property != prop || k.Status != "known" || len(k.Match) == 0 {
			continue
		}
		ok := true
		for _, key := range sortedKeysStr(k.Match) {
			want := k.Match[key]
			switch {
			case want == "*": // any non-empty value
				if facts[key] == "" {
					ok = false
				}
			case strings.HasPrefix(want, "!"): // must not contain
				if strings.Contains(facts[key], want[1:]) {
					ok = false
				}
			default:
				if !strings.Contains(facts[key], want) {
					ok = false
				}
			}
			if !ok {
				break
			}
		}
		if ok {
			return k
		}
	}
	return nil
}

func sortedKeysStr(m map[string]string) []string {
	ks := make([]string, 0, len(m))
	for k := range m {
		ks = append(ks, k)
	}
	sort.Strings(ks)
	return ks
}
