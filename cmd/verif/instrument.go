package main

import (
	"encoding/json"
	"fmt"
	"os"
	"path/filepath"
	"time"

	"verif/internal/geninst"
)

func init() {
	commands["instrument"] = func(args []string) int {
		if len(args) != 1 {
			usage()
		}
		rep, err := geninst.Instrument(args[0], filepath.Join(verifRoot, "simrt/verifsim"), goEnv())
		if err != nil {
			fmt.Fprintln(os.Stderr, "instrument:", err)
			return 2
		}
		b, _ := json.MarshalIndent(rep, "", " ")
		fmt.Println(string(b))
		return 0
	}
}

// genBinaries holds the two goderive binaries built from one copy of the
// working tree: the plain one and the instrumented one.
type genBinaries struct {
	scratch string
	plain   string
	inst    string
	rep     *geninst.Report
	buildS  float64
}

// buildGenBinaries copies /repo twice (plain, instrumented), instruments the
// second copy and builds both.
func buildGenBinaries() *genBinaries {
	t0 := time.Now()
	g := &genBinaries{scratch: scratchDir("gen")}
	plainDir := filepath.Join(g.scratch, "repo.plain")
	instDir := filepath.Join(g.scratch, "repo.inst")
	copyRepo(plainDir)
	copyRepo(instDir)
	g.plain = filepath.Join(g.scratch, "goderive.plain")
	g.inst = filepath.Join(g.scratch, "goderive.inst")
	done := make(chan struct{})
	go func() { buildGoderive(plainDir, g.plain); close(done) }()
	rep, err := geninst.Instrument(instDir, filepath.Join(verifRoot, "simrt/verifsim"), goEnv())
	if err != nil {
		<-done
		harnessTrouble("instrumenting the copy of the working tree: %v", err)
	}
	g.rep = rep
	buildGoderive(instDir, g.inst)
	<-done
	// the source copies are not needed once the binaries exist
	os.RemoveAll(plainDir)
	os.RemoveAll(instDir)
	g.buildS = time.Since(t0).Seconds()
	return g
}
