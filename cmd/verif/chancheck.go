package main

import (
	"encoding/binary"
	"encoding/json"
	"fmt"
	"os"
	"path/filepath"
	"sort"
	"strings"
	"sync"
	"time"

	"verif/internal/xlate"
)

func init() {
	checks["C19"] = func(o checkOpts) int { return chanCheck(o) }
	checks["C20"] = func(o checkOpts) int { return chanCheck(o) }
}

type chanHarness struct {
	scratch  string
	driver   string
	driver21 string // same catalogue translated with language version go1.21 (shared loop variables)
	xrep     map[string]*xlate.Report
	entries  []string
	buildS   float64
}

var chanEntriesFor = map[string][]string{
	"C19": {"fmapint", "fmapstr", "fmapchan", "joinrr", "joinbr", "joinsr", "joinsb", "joinv2", "joinv3", "joinv4", "pipeline", "dupb", "dupr", "joincc", "joinrc", "pipelinebb"},
	"C20": {"do2", "do3", "do4", "do3s", "do4s"},
	"C16": {"compose3"}, // concurrent callers of one composed function (second part of the C16 check)
}

// buildChanHarness: copy /repo, build goderive from it, run it on every
// catalogue package, translate the results onto chansim, build the driver.
func buildChanHarness(prop string) *chanHarness {
	t0 := time.Now()
	h := &chanHarness{scratch: scratchDir("chan"), xrep: map[string]*xlate.Report{}}
	repo := filepath.Join(h.scratch, "repo")
	copyRepo(repo)
	gd := filepath.Join(h.scratch, "goderive")
	buildGoderive(repo, gd)

	hd := filepath.Join(h.scratch, "h")
	os.MkdirAll(hd, 0o755)
	gomod := "module harness\n\ngo 1.24\n\nrequire verif v0.0.0\n\nreplace verif => " + verifRoot + "\n"
	os.WriteFile(filepath.Join(hd, "go.mod"), []byte(gomod), 0o644)

	all := append(append(append([]string{}, chanEntriesFor["C19"]...), chanEntriesFor["C20"]...), chanEntriesFor["C16"]...)
	h.entries = all
	cat := filepath.Join(verifRoot, "harness/chan/_catalog")
	var wg sync.WaitGroup
	errs := make([]string, len(all))
	for i, e := range all {
		wg.Add(1)
		go func(i int, e string) {
			defer wg.Done()
			src := filepath.Join(hd, "cat", e)
			os.MkdirAll(src, 0o755)
			b, err := os.ReadFile(filepath.Join(cat, e, "calls.go"))
			if err != nil {
				errs[i] = err.Error()
				return
			}
			os.WriteFile(filepath.Join(src, "calls.go"), b, 0o644)
			r := runCmd(src, goEnv(), 2*time.Minute, gd, ".")
			if r.Exit != 0 || r.TimedOut {
				errs[i] = fmt.Sprintf("goderive on catalogue entry %s: exit %d timeout=%v: %s", e, r.Exit, r.TimedOut, r.Stderr)
				return
			}
		}(i, e)
	}
	wg.Wait()
	for _, e := range errs {
		if e != "" {
			harnessTrouble("generation of the concurrency catalogue failed (that is C01/C09's subject, not %s's): %s", prop, e)
		}
	}
	// two translations of the same generated text: the module's language
	// version (per-iteration loop variables), and go1.21 (one loop variable
	// shared by all iterations: what a user module with an older go line gets)
	for vi, lang := range []string{"", "go1.21"} {
		hv := hd
		if vi == 1 {
			hv = filepath.Join(h.scratch, "h21")
			os.MkdirAll(hv, 0o755)
			os.WriteFile(filepath.Join(hv, "go.mod"), []byte(gomod), 0o644)
		}
		for _, e := range all {
			rep, err := xlate.TranslateDir(filepath.Join(hd, "cat", e), filepath.Join(hv, "t", e), true, lang)
			if err != nil {
				harnessTrouble("translating catalogue entry %s: %v", e, err)
			}
			if vi == 0 {
				h.xrep[e] = rep
			}
		}
		drv := filepath.Join(hv, "driver")
		if err := copyTree(filepath.Join(verifRoot, "harness/chan/_driver"), drv, nil); err != nil {
			harnessTrouble("copy driver: %v", err)
		}
		out := filepath.Join(h.scratch, "driver.bin")
		if vi == 1 {
			out = filepath.Join(h.scratch, "driver21.bin")
			h.driver21 = out
		} else {
			h.driver = out
		}
		mustRun("build simulation driver "+lang, hv, goEnv(), 10*time.Minute, "go", "build", "-o", out, "./driver")
	}
	h.buildS = time.Since(t0).Seconds()
	return h
}

// driverFor picks the driver a replay file was recorded with.
func (h *chanHarness) driverFor(replay string) string {
	b, err := os.ReadFile(replay)
	if err == nil {
		var rf struct {
			Variant string `json:"variant"`
		}
		if json.Unmarshal(b, &rf) == nil && rf.Variant == "go1.21" {
			return h.driver21
		}
	}
	return h.driver
}

type workerStats struct {
	Prop        string         `json:"prop"`
	Runs        int            `json:"runs"`
	Steps       int64          `json:"steps"`
	Nontrivial  int            `json:"nontrivial"`
	Distinct    int            `json:"distinct"`
	DistinctCap bool           `json:"distinct_capped"`
	PerScenario map[string]int `json:"per_scenario"`
	Probes      map[string]int `json:"probes"`
	Failures    int            `json:"failures"`
	FirstFail   int            `json:"first_fail"`
	FailClass   string         `json:"fail_class"`
	FailDetail  string         `json:"fail_detail"`
	Replay      string         `json:"replay"`
	WallS       float64        `json:"wall_s"`
	Samples     []any          `json:"samples"`
	ShrinkEvals int            `json:"shrink_evals"`
	From        int            `json:"from"`
	To          int            `json:"to"`
}

func chanCheck(o checkOpts) int { return chanCheckSub(o, "") }

// chanCheckSub with sub != "" is the chansim part of a check whose first part
// has already written the property's evidence file: its coverage goes under
// the key sub of that evidence instead of replacing it.
func chanCheckSub(o checkOpts, sub string) int {
	ev := newEvidence(o.id, o.tier, o.seed, "exploration")
	if sub != "" {
		if b, err := os.ReadFile(filepath.Join(evidenceDir(), o.id+".json")); err == nil {
			var prev Evidence
			if json.Unmarshal(b, &prev) == nil && prev.Coverage != nil {
				prev.start = time.Now().Add(-time.Duration(prev.WallS * float64(time.Second)))
				ev = &prev
				curEvidence = ev
			}
		}
	}
	h := buildChanHarness(o.id)
	defer cleanup()

	runsTotal := 3_000_000
	maxWall := 45 * time.Second
	if o.tier == "thorough" {
		runsTotal = 400_000_000
		maxWall = 20 * time.Minute
	}
	if sub != "" {
		// a side condition of the property, not its core: a smaller share of the budget
		runsTotal, maxWall = runsTotal/10, maxWall/3
	}
	if v := os.Getenv("VERIF_RUNS"); v != "" {
		fmt.Sscan(v, &runsTotal)
	}
	if v := os.Getenv("VERIF_MAXWALL"); v != "" {
		if d, err := time.ParseDuration(v); err == nil {
			maxWall = d
		}
	}
	jobs := o.jobs
	per := (runsTotal + jobs - 1) / jobs
	replayDir := replaysDir()
	rev := repoRev()
	stats := make([]*workerStats, jobs)
	outs := make([]cmdResult, jobs)
	var wg sync.WaitGroup
	t0 := time.Now()
	for w := 0; w < jobs; w++ {
		wg.Add(1)
		go func(w int) {
			defer wg.Done()
			sp := filepath.Join(h.scratch, fmt.Sprintf("stats%d.json", w))
			hp := filepath.Join(h.scratch, fmt.Sprintf("hashes%d.bin", w))
			drv, variant := h.driver, ""
			if w >= (jobs+1)/2 && jobs > 1 {
				drv, variant = h.driver21, "go1.21"
			}
			outs[w] = runCmd(h.scratch, append(os.Environ(), "GOMAXPROCS=2"), maxWall+10*time.Minute, drv,
				"-variant", variant, "-prop", o.id, "-seed", fmt.Sprint(o.seed), "-from", fmt.Sprint(w*per), "-to", fmt.Sprint((w+1)*per),
				"-stats", sp, "-hashes", hp, "-replaydir", replayDir, "-maxwall", maxWall.String(), "-reporev", rev)
			b, err := os.ReadFile(sp)
			if err == nil {
				var st workerStats
				if json.Unmarshal(b, &st) == nil {
					stats[w] = &st
				}
			}
		}(w)
	}
	wg.Wait()
	simWall := time.Since(t0).Seconds()

	// aggregate
	agg := workerStats{PerScenario: map[string]int{}, Probes: map[string]int{}}
	var failing []*workerStats
	hangs := []string{}
	for w := 0; w < jobs; w++ {
		if outs[w].Exit == 3 || strings.Contains(outs[w].Stdout, "HANG ") {
			hangs = append(hangs, strings.TrimSpace(outs[w].Stdout))
		}
		st := stats[w]
		if st == nil {
			if outs[w].Exit == 3 {
				continue
			}
			harnessTrouble("worker %d produced no statistics (exit %d): %s %s", w, outs[w].Exit, outs[w].Stdout, outs[w].Stderr)
		}
		agg.Runs += st.Runs
		agg.Steps += st.Steps
		agg.Nontrivial += st.Nontrivial
		for _, k := range sortedKeysInt(st.PerScenario) {
			agg.PerScenario[k] += st.PerScenario[k]
		}
		for _, k := range sortedKeysInt(st.Probes) {
			agg.Probes[k] += st.Probes[k]
		}
		if len(agg.Samples) < 4 {
			agg.Samples = append(agg.Samples, st.Samples...)
		}
		if st.Failures > 0 {
			failing = append(failing, st)
		}
	}
	// union of distinct schedule hashes
	union := map[uint64]struct{}{}
	capped := false
	for w := 0; w < jobs; w++ {
		if stats[w] != nil && stats[w].DistinctCap {
			capped = true
		}
		b, err := os.ReadFile(filepath.Join(h.scratch, fmt.Sprintf("hashes%d.bin", w)))
		if err != nil {
			continue
		}
		for i := 0; i+8 <= len(b); i += 8 {
			union[binary.LittleEndian.Uint64(b[i:])] = struct{}{}
		}
	}

	xsum := map[string]any{}
	untracked := []string{}
	for _, e := range chanEntriesFor[o.id] {
		r := h.xrep[e]
		xsum[e] = map[string]int{"chan_types": r.Chans, "sends": r.Sends, "recvs": r.Recvs, "selects": r.Selects, "go_stmts": r.Gos, "range_over_chan": r.Ranges, "closes": r.Closes, "shared_vars_instrumented": len(r.SharedVars)}
		untracked = append(untracked, r.Untracked...)
	}
	cov := ev.Coverage
	if sub != "" {
		cov = map[string]any{}
		ev.Coverage[sub] = cov
		cov["engine"] = "chansim"
	}
	cov["evaluations"] = agg.Runs
	cov["distinct_nontrivial"] = len(union)
	cov["distinct_capped"] = capped
	cov["nontrivial_runs"] = agg.Nontrivial
	cov["rule"] = "one evaluation = one simulated execution (one tape) of one catalogue entry: configuration (inputs, items, capacities, start order, stalls, strategy) and every scheduling / select / partner choice drawn from the tape; non-trivial = at least 2 context switches; distinct = distinct hash of the (task role, operation, channel role) sequence, union over workers (each worker keeps at most 2^20 hashes, so the count is a lower bound when distinct_capped)"
	cov["samples"] = agg.Samples
	cov["sim_steps"] = agg.Steps
	cov["simulated_time"] = "no clock exists in goderive or in the code it generates; logical time = scheduler steps (sim_steps)"
	cov["runs_per_hour"] = int(float64(agg.Runs) / simWall * 3600)
	cov["seeds"] = map[string]any{"base_seed": o.seed, "run_index_from": 0, "run_index_to": jobs * per, "seed_of_run": "Mix(VERIF_SEED, property, run index)"}
	cov["per_scenario_runs"] = agg.PerScenario
	cov["probes"] = agg.Probes
	cov["faults_fired"] = map[string]int{"stall_started": agg.Probes["sched.stall_started"], "task_withheld(stall or delayed start)": agg.Probes["sched.withheld_applied"], "pct_priority_change": agg.Probes["sched.pct_change"], "do_function_failure_injected": agg.Probes["do.fault_injected"]}
	cov["language_variants"] = "run indices of the first half of the workers execute the catalogue translated at the module's language version (per-iteration loop variables); the second half the same text at go1.21 (loop variable shared by all iterations)"
	cov["strategies"] = []string{"uniform random walk over enabled tasks", "PCT with 1-3 priority change points", "stalls (task withheld k steps)", "delayed start of spawned tasks"}
	cov["components"] = map[string]any{
		"real": []string{"goderive built from the working tree (main.go, derive/, plugin/*) generating derived.gen.go for each catalogue entry", "every statement of the generated combinators (loops, go statements, WaitGroup calls, select, close, captures, returns), translated 1:1 onto chansim"},
		"stub": []string{"Go runtime primitives: channels, select, goroutine scheduling, sync.WaitGroup/Mutex (replaced by verif/chansim)", "producers, consumers and argument functions (harness code)"},
	}
	cov["translator"] = xsum
	cov["race_untracked_accesses"] = untracked
	cov["build_s"] = h.buildS
	cov["sim_wall_s"] = simWall
	cov["workers"] = jobs
	chanAssumptions := []string{
		"the translator (internal/xlate) preserves the meaning of the generated code; validated by its snippet corpus (selftest xlate) and by compiling the result",
		"sampling, not enumeration: a clean batch is evidence, not proof",
		"the Go memory model edges implemented in chansim (go, channel send/receive/close, WaitGroup, Mutex) are the ones the race clause is judged by",
	}
	if sub != "" {
		for i := range chanAssumptions {
			chanAssumptions[i] = sub + ": " + chanAssumptions[i]
		}
		ev.Assumptions = append(ev.Assumptions, chanAssumptions...)
	} else {
		ev.Assumptions = chanAssumptions
	}

	// thorough tier: real-runtime corroboration (not seeded, not deciding): the
	// untranslated catalogue under the race detector for a fixed wall time
	if o.tier == "thorough" || os.Getenv("VERIF_NATIVE") != "" {
		nat := nativeCorroboration(h)
		cov["real_runtime_race_corroboration"] = nat
		if v, _ := nat["violation"].(string); v != "" && len(failing) == 0 && len(hangs) == 0 {
			p := filepath.Join(replayDir, fmt.Sprintf("%s-%d-native.json", o.id, o.seed))
			b, _ := json.MarshalIndent(map[string]any{"property": o.id, "violation": "real-runtime", "detail": v, "engine": "native", "repo_rev": rev, "note": "real-runtime execution under the race detector, not seeded: rerun the thorough tier to reproduce"}, "", " ")
			os.WriteFile(p, b, 0o644)
			ev.Violations = 1
			ev.write()
			fmt.Printf("violation (real runtime, not seeded): %s\n", firstLines(v, 6))
			fmt.Printf("VIOLATION property=%s replay=%s\n", o.id, p)
			return 1
		}
	}
	if len(hangs) > 0 {
		// an invisible spin: the tape prefix replays it
		p := filepath.Join(replayDir, fmt.Sprintf("%s-%d-hang.json", o.id, o.seed))
		b, _ := json.MarshalIndent(map[string]any{"property": o.id, "violation": "hang", "detail": hangs, "engine": "chansim", "repo_rev": rev}, "", " ")
		os.WriteFile(p, b, 0o644)
		ev.Violations = 1
		ev.write()
		fmt.Printf("VIOLATION property=%s replay=%s\n", o.id, p)
		return 1
	}
	if len(failing) == 0 {
		ev.write()
		fmt.Printf("%s: held on %d simulated runs (%d distinct non-trivial schedules, %d steps) in %.1fs (+%.1fs build)\n", o.id, agg.Runs, len(union), agg.Steps, simWall, h.buildS)
		return 0
	}
	sort.Slice(failing, func(i, j int) bool { return failing[i].FirstFail < failing[j].FirstFail })
	kfs := loadKnownFindings()
	exit := 0
	reported := map[string]bool{}
	for _, f := range failing {
		// confirm in a fresh process
		r := runCmd(h.scratch, os.Environ(), 2*time.Minute, h.driverFor(f.Replay), "-replay", f.Replay)
		confirmed := r.Exit == 1 && strings.Contains(r.Stdout, "VIOLATION property="+o.id)
		if !confirmed {
			harnessTrouble("NON-REPRODUCIBLE: run %d failed (%s: %s) but its replay %s does not fail the same way in a fresh process:\n%s", f.FirstFail, f.FailClass, f.FailDetail, f.Replay, r.Stdout)
		}
		facts := map[string]string{"class": f.FailClass, "detail": f.FailDetail}
		if rb, err := os.ReadFile(f.Replay); err == nil {
			var rf struct {
				Decoded map[string]any `json:"decoded"`
			}
			json.Unmarshal(rb, &rf)
			if s, ok := rf.Decoded["scenario"].(string); ok {
				facts["scenario"] = s
			}
		}
		if k := matchKnown(kfs, o.id, facts); k != nil {
			if !reported[k.ID] {
				fmt.Printf("KNOWN-FINDING: property=%s %s\n", o.id, k.Text)
				reported[k.ID] = true
			}
			continue
		}
		ev.Violations++
		if exit == 0 {
			fmt.Printf("violation: run %d scenario=%s class=%s: %s\n", f.FirstFail, facts["scenario"], f.FailClass, f.FailDetail)
			fmt.Printf("VIOLATION property=%s replay=%s\n", o.id, f.Replay)
			exit = 1
		}
	}
	ev.write()
	return exit
}

// chanReplay rebuilds the harness from the working tree and replays a file.
func chanReplay(prop, path string) int {
	h := buildChanHarness(prop)
	defer cleanup()
	r := runCmd(h.scratch, os.Environ(), 5*time.Minute, h.driverFor(path), "-replay", path)
	fmt.Print(r.Stdout)
	fmt.Fprint(os.Stderr, r.Stderr)
	return r.Exit
}

// nativeCorroboration builds the untranslated catalogue with -race next to a
// small native harness and runs it for a fixed time. Needs cgo; when the race
// detector cannot be built it reports "skipped" (never a verdict).
func nativeCorroboration(h *chanHarness) map[string]any {
	hd := filepath.Join(h.scratch, "h")
	nd := filepath.Join(hd, "native")
	if err := copyTree(filepath.Join(verifRoot, "harness/chan/_native"), nd, nil); err != nil {
		return map[string]any{"status": "skipped", "reason": err.Error()}
	}
	bin := filepath.Join(h.scratch, "native.bin")
	env := []string{}
	for _, kv := range goEnv() {
		if !strings.HasPrefix(kv, "CGO_ENABLED=") {
			env = append(env, kv)
		}
	}
	env = append(env, "CGO_ENABLED=1")
	r := runCmd(hd, env, 10*time.Minute, "go", "build", "-race", "-o", bin, "./native")
	if r.Exit != 0 {
		return map[string]any{"status": "skipped", "reason": "cannot build with -race: " + firstLines(r.Stderr, 2)}
	}
	rr := runCmd(hd, append(os.Environ(), "GORACE=halt_on_error=1 exitcode=66"), 5*time.Minute, bin, "40s")
	out := map[string]any{"status": "ran", "stdout": firstLines(rr.Stdout, 2), "exit": rr.Exit}
	if rr.Exit != 0 {
		out["violation"] = firstLines(rr.Stdout+"\n"+rr.Stderr, 30)
	}
	return out
}
