package main

import (
	"encoding/json"
	"fmt"
	"os"
	"path/filepath"
	"strings"
	"sync"
	"time"

	"verif/internal/world"
	"verif/internal/xlate"
	"verif/tape"
)

func init() {
	commands["selftest"] = func(args []string) int {
		if len(args) == 0 {
			args = []string{"determinism", "xlate", "oracle"}
		}
		rc := 0
		for _, a := range args {
			switch a {
			case "determinism":
				if r := selftestDeterminism(); r != 0 {
					rc = r
				}
			case "xlate":
				if r := selftestXlate(); r != 0 {
					rc = r
				}
			case "oracle":
				if r := selftestOracle(); r != 0 {
					rc = r
				}
			default:
				fmt.Fprintln(os.Stderr, "unknown selftest", a)
				return 2
			}
		}
		return rc
	}
}

// selftestDeterminism: one seed is one execution.
// chansim: the per-run digest lines (scenario, steps, switches, schedule
// hash, verdict, number of draws) of the same run range must be identical
// across processes and GOMAXPROCS 1/4/16, for both language variants.
// gensim: the same case index of C01/C07/C08/C10/C11 executed twice in
// different directories must give the same hash, verdict and execution count.
func selftestDeterminism() int {
	fails := 0
	h := buildChanHarness("C19")
	for _, prop := range []string{"C19", "C20", "C16"} {
		for _, drv := range []string{h.driver, h.driver21} {
			var ref string
			n := 0
			for _, gmp := range []string{"1", "4", "16"} {
				for rep := 0; rep < 3; rep++ {
					r := runCmd(h.scratch, append(os.Environ(), "GOMAXPROCS="+gmp), 10*time.Minute, drv, "-prop", prop, "-seed", "7", "-from", "0", "-to", "3000", "-digest")
					if r.Exit != 0 {
						fmt.Printf("selftest determinism: driver failed on the unchanged tree: %s\n", firstLines(r.Stdout+r.Stderr, 3))
						fails++
						continue
					}
					if ref == "" {
						ref = r.Stdout
					} else if r.Stdout != ref {
						fmt.Printf("selftest determinism: %s %s differs at GOMAXPROCS=%s repetition %d: %s\n", prop, filepath.Base(drv), gmp, rep, firstDiff(ref, r.Stdout))
						fails++
					}
					n++
				}
			}
			fmt.Printf("selftest determinism: chansim %s %s: %d executions of 3000 runs identical (%d lines)\n", prop, filepath.Base(drv), n, strings.Count(ref, "\n"))
		}
	}
	cleanup()
	// seqsim: the same shapes generated, derived, built and run twice (two driver processes):
	// identical results, including the counters of the map iteration seam
	for _, prop := range []string{"C16", "C18"} {
		scratch := scratchDir("seqdet")
		repo := filepath.Join(scratch, "repo")
		copyRepo(repo)
		gd := filepath.Join(scratch, "goderive")
		buildGoderive(repo, gd)
		idxs := make([]int, 40)
		for i := range idxs {
			idxs[i] = i
		}
		var outs [2]string
		for rep := 0; rep < 2; rep++ {
			rs, vs, _, _ := seqRunShapes(prop, 13, idxs, filepath.Join(scratch, fmt.Sprint("r", rep)), gd, 16)
			b, _ := json.Marshal(rs)
			outs[rep] = string(b) + fmt.Sprint(len(vs))
		}
		if outs[0] != outs[1] {
			fmt.Printf("selftest determinism: seqsim %s: two executions of 40 shapes differ: %s\n", prop, firstDiff(strings.ReplaceAll(outs[0], "},{", "},\n{"), strings.ReplaceAll(outs[1], "},{", "},\n{")))
			fails++
		} else {
			fmt.Printf("selftest determinism: seqsim %s: 40 shapes executed twice, identical (%d bytes of results)\n", prop, len(outs[0]))
		}
		cleanup()
	}
	for _, prop := range []string{"C01", "C07", "C08", "C10", "C11", "C12", "C09"} {
		ctx := &genCtx{prop: prop, tier: "quick", bins: buildGenBinaries(), kfs: loadKnownFindings()}
		fn := genCases[prop]
		const n = 24
		type out struct {
			hash, clause string
			execs, steps int
		}
		res := [2][n]out{}
		var wg sync.WaitGroup
		for rep := 0; rep < 2; rep++ {
			for i := 0; i < n; i++ {
				wg.Add(1)
				go func(rep, i int) {
					defer wg.Done()
					dir := filepath.Join(ctx.bins.scratch, fmt.Sprintf("d%d_%d", rep, i))
					os.MkdirAll(dir, 0o755)
					r := fn(ctx, tape.NewSet(tape.Mix(11, tape.MixS(prop), uint64(i))), dir)
					o := out{hash: r.Hash, execs: r.Execs, steps: r.Steps}
					if r.V != nil {
						o.clause = r.V.Clause
					}
					res[rep][i] = o
					os.RemoveAll(dir)
				}(rep, i)
			}
		}
		wg.Wait()
		bad := 0
		for i := 0; i < n; i++ {
			if res[0][i] != res[1][i] {
				fmt.Printf("selftest determinism: gensim %s case %d: %+v vs %+v\n", prop, i, res[0][i], res[1][i])
				bad++
			}
		}
		fmt.Printf("selftest determinism: gensim %s: %d cases executed twice, %d differ\n", prop, n, bad)
		fails += bad
		cleanup()
	}
	if fails > 0 {
		fmt.Println("selftest determinism: FAILED")
		return 1
	}
	fmt.Println("selftest determinism: ok")
	return 0
}

// selftestXlate: a corpus of small concurrent programs with known outcome
// sets is translated and executed under many seeds; the set of observed
// outcomes must be exactly the expected one.
func selftestXlate() int {
	scratch := scratchDir("xl")
	defer cleanup()
	mod := filepath.Join(scratch, "m")
	os.MkdirAll(filepath.Join(mod, "drv"), 0o755)
	os.WriteFile(filepath.Join(mod, "go.mod"), []byte("module xl\n\ngo 1.24\n\nrequire verif v0.0.0\n\nreplace verif => "+verifRoot+"\n"), 0o644)
	var imports, table []string
	for i, c := range xlateCorpus {
		name := fmt.Sprintf("c%02d", i)
		src := filepath.Join(scratch, "src", name)
		os.MkdirAll(src, 0o755)
		os.WriteFile(filepath.Join(src, "a.go"), []byte("package "+name+"\n\n"+c.src+"\n"), 0o644)
		if _, err := xlate.TranslateDir(src, filepath.Join(mod, name), true, c.lang); err != nil {
			if c.refuse {
				fmt.Printf("selftest xlate: %-28s refused as expected\n", c.name)
				continue
			}
			fmt.Printf("selftest xlate: %s: translation failed: %v\n", c.name, err)
			return 1
		}
		if c.refuse {
			fmt.Printf("selftest xlate: %s: should have been refused\n", c.name)
			return 1
		}
		imports = append(imports, fmt.Sprintf("\t%q", "xl/"+name))
		table = append(table, fmt.Sprintf("\t{%q, %s.Main, %q},", c.name, name, strings.Join(c.want, ",")))
	}
	drv := `package main

import (
	"fmt"
	"os"
	"sort"
	"strings"

	"verif/chansim"
	"verif/tape"

` + strings.Join(imports, "\n") + `
)

var corpus = []struct {
	name string
	main func() string
	want string
}{
` + strings.Join(table, "\n") + `
}

func main() {
	bad := 0
	for _, c := range corpus {
		seen := map[string]int{}
		for seed := uint64(0); seed < 4000; seed++ {
			tp := tape.New(seed)
			cfg := chansim.Config{Strategy: int(seed % 2), PCTDepth: 2, PCTLenHint: 30, StepBudget: 400}
			if seed%3 == 0 {
				cfg.StallProb, cfg.StallMax = 100, 6
			}
			if seed%5 == 0 {
				cfg.DelayStart = 8
			}
			s := chansim.New(cfg, tp)
			out := ""
			f := s.Run(func() { out = c.main() })
			if f != nil {
				out = f.Class
			}
			seen[out]++
		}
		var got []string
		for k := range seen {
			got = append(got, k)
		}
		sort.Strings(got)
		g := strings.Join(got, ",")
		status := "ok"
		if g != c.want {
			status = "MISMATCH want " + c.want
			bad++
		}
		fmt.Printf("selftest xlate: %-28s outcomes {%s} %s\n", c.name, g, status)
	}
	if bad > 0 {
		os.Exit(1)
	}
}
`
	os.WriteFile(filepath.Join(mod, "drv", "main.go"), []byte(drv), 0o644)
	bin := filepath.Join(scratch, "xl.bin")
	mustRun("build xlate corpus driver", mod, goEnv(), 10*time.Minute, "go", "build", "-o", bin, "./drv")
	r := runCmd(mod, os.Environ(), 10*time.Minute, bin)
	fmt.Print(r.Stdout)
	if r.Exit != 0 {
		fmt.Println("selftest xlate: FAILED", firstLines(r.Stderr, 3))
		return 1
	}
	fmt.Println("selftest xlate: ok")
	return 0
}

type xlCase struct {
	name   string
	src    string
	want   []string // sorted set of outcomes: values returned by Main or failure classes
	lang   string
	refuse bool
}

// Outcome sets are exact: every listed outcome must be observed and nothing else.
var xlateCorpus = []xlCase{
	{name: "rendezvous", want: []string{"7"}, src: `import "fmt"
func Main() string { c := make(chan int); go func() { c <- 7 }(); return fmt.Sprint(<-c) }`},
	{name: "buffered-order", want: []string{"1 2 3"}, src: `import "fmt"
func Main() string { c := make(chan int, 3); c <- 1; c <- 2; c <- 3; close(c); s := []int{}; for v := range c { s = append(s, v) }; return fmt.Sprint(s[0], s[1], s[2]) }`},
	{name: "deadlock-no-sender", want: []string{"deadlock"}, src: `func Main() string { c := make(chan int); <-c; return "unreachable" }`},
	{name: "nil-channel-blocks", want: []string{"deadlock"}, src: `func Main() string { var c chan int; c <- 1; return "unreachable" }`},
	{name: "send-on-closed", want: []string{"panic:send-on-closed"}, src: `func Main() string { c := make(chan int, 1); close(c); c <- 1; return "unreachable" }`},
	{name: "close-twice", want: []string{"panic:close-of-closed"}, src: `func Main() string { c := make(chan int); close(c); close(c); return "unreachable" }`},
	{name: "select-default", want: []string{"default"}, src: `func Main() string { c := make(chan int); select { case v := <-c: _ = v; return "recv"; default: return "default" } }`},
	{name: "select-both-ready", want: []string{"a", "b"}, src: `func Main() string { a, b := make(chan int, 1), make(chan int, 1); a <- 1; b <- 2; select { case <-a: return "a"; case <-b: return "b" } }`},
	{name: "race-two-writers", want: []string{"race"}, src: `import "sync"
func Main() string { var wg sync.WaitGroup; x := 0; for i := 0; i < 2; i++ { wg.Add(1); go func() { x = x + 1; wg.Done() }() }; wg.Wait(); _ = x; return "done" }`},
	{name: "waitgroup-publishes", want: []string{"2"}, src: `import ("fmt"; "sync")
func Main() string { var wg sync.WaitGroup; var mu sync.Mutex; x := 0; for i := 0; i < 2; i++ { wg.Add(1); go func() { mu.Lock(); x++; mu.Unlock(); wg.Done() }() }; wg.Wait(); return fmt.Sprint(x) }`},
	{name: "add-inside-goroutine", want: []string{"1", "race"}, src: `import ("fmt"; "sync")
func Main() string { var wg sync.WaitGroup; x := 0; go func() { wg.Add(1); x = 1; wg.Done() }(); wg.Wait(); return fmt.Sprint(x) }`},
	{name: "leak-blocked-sender", want: []string{"leak"}, src: `func Main() string { c := make(chan int); go func() { c <- 1 }(); return "done" }`},
	{name: "comma-ok-after-close", want: []string{"0 false"}, src: `import "fmt"
func Main() string { c := make(chan int); close(c); v, ok := <-c; return fmt.Sprint(v, ok) }`},
	{name: "loopvar-per-iteration", want: []string{"3"}, src: `import ("fmt"; "sync")
func Main() string { var wg sync.WaitGroup; out := make(chan int, 3); for i := 0; i < 3; i++ { wg.Add(1); go func() { out <- i; wg.Done() }() }; wg.Wait(); close(out); s := 0; for v := range out { s += v }; return fmt.Sprint(s) }`},
	{name: "loopvar-shared-go1.21", lang: "go1.21", want: []string{"race"}, src: `import ("fmt"; "sync")
func Main() string { var wg sync.WaitGroup; out := make(chan int, 3); for i := 0; i < 3; i++ { wg.Add(1); go func() { out <- i; wg.Done() }() }; wg.Wait(); close(out); s := 0; for v := range out { s += v }; return fmt.Sprint(s) }`},
	{name: "atomic-counter", want: []string{"2"}, src: `import ("fmt"; "sync"; "sync/atomic")
func Main() string { var wg sync.WaitGroup; var n int32; for i := 0; i < 2; i++ { wg.Add(1); go func() { atomic.AddInt32(&n, 1); wg.Done() }() }; wg.Wait(); return fmt.Sprint(atomic.LoadInt32(&n)) }`},
	{name: "livelock-closed-select", want: []string{"step-budget"}, src: `func Main() string { c := make(chan int); close(c); for { select { case <-c: } } }`},
	{name: "select-send-or-recv", want: []string{"recv", "sent"}, src: `func Main() string { a, b := make(chan int, 1), make(chan int, 1); b <- 1; select { case a <- 5: return "sent"; case <-b: return "recv" } }`},
	{name: "close-wakes-all-receivers", want: []string{"3"}, src: `import ("fmt"; "sync")
func Main() string { c := make(chan int); var wg sync.WaitGroup; var mu sync.Mutex; n := 0; for i := 0; i < 3; i++ { wg.Add(1); go func() { <-c; mu.Lock(); n++; mu.Unlock(); wg.Done() }() }; close(c); wg.Wait(); return fmt.Sprint(n) }`},
	{name: "go-args-evaluated-at-go", want: []string{"1"}, src: `import "fmt"
func Main() string { c := make(chan int, 1); x := 1; go func(v int) { c <- v }(x); x = 2; _ = x; return fmt.Sprint(<-c) }`},
	{name: "negative-waitgroup", want: []string{"panic:negative-waitgroup"}, src: `import "sync"
func Main() string { var wg sync.WaitGroup; wg.Done(); return "unreachable" }`},
	{name: "once-runs-once", want: []string{"1"}, src: `import ("fmt"; "sync")
func Main() string { var once sync.Once; var wg sync.WaitGroup; n := 0; for i := 0; i < 3; i++ { wg.Add(1); go func() { once.Do(func() { n++ }); wg.Done() }() }; wg.Wait(); return fmt.Sprint(n) }`},
	{name: "rwmutex-readers-writer", want: []string{"1"}, src: `import ("fmt"; "sync")
func Main() string { var mu sync.RWMutex; var wg sync.WaitGroup; x := 0; wg.Add(3); go func() { mu.Lock(); x = 1; mu.Unlock(); wg.Done() }(); for i := 0; i < 2; i++ { go func() { mu.RLock(); _ = x; mu.RUnlock(); wg.Done() }() }; wg.Wait(); mu.RLock(); v := x; mu.RUnlock(); return fmt.Sprint(v) }`},
	{name: "unbuffered-handoff-publishes", want: []string{"7"}, src: `import "fmt"
func Main() string { c := make(chan struct{}); x := 0; go func() { x = 7; c <- struct{}{} }(); <-c; return fmt.Sprint(x) }`},
	{name: "write-in-if-init-races", want: []string{"race"}, src: `import "sync"
func two() (int, error) { return 1, nil }
func Main() string { var wg sync.WaitGroup; x := 0; var err error; f := func() { var e error; if x, e = two(); e != nil { return } }; _ = err; for i := 0; i < 2; i++ { wg.Add(1); go func() { f(); wg.Done() }() }; wg.Wait(); _ = x; return "done" }`},
	{name: "write-in-if-init-ordered", want: []string{"1"}, src: `import ("fmt"; "sync")
func two() (int, error) { return 1, nil }
func Main() string { var wg sync.WaitGroup; var mu sync.Mutex; x := 0; f := func() { mu.Lock(); defer mu.Unlock(); var e error; if x, e = two(); e != nil { return } }; for i := 0; i < 2; i++ { wg.Add(1); go func() { f(); wg.Done() }() }; wg.Wait(); return fmt.Sprint(x) }`},
	{name: "gomaxprocs-is-simulated", want: []string{"ok"}, src: `import "runtime"
func Main() string { n := runtime.GOMAXPROCS(0); if n < 1 || n != runtime.NumCPU() { return "bad" }; sem := make(chan struct{}, n); sem <- struct{}{}; <-sem; return "ok" }`},
	{name: "buffered-does-not-publish-back", want: []string{"race"}, src: `func Main() string { c := make(chan struct{}, 1); x := 0; go func() { <-c; x = 7 }(); c <- struct{}{}; _ = x; return "done" }`},
	{name: "range-nil-channel", want: []string{"deadlock"}, src: `func Main() string { var c chan int; for range c { }; return "unreachable" }`},
	{name: "time-is-refused", refuse: true, src: `import "time"
func Main() string { time.Sleep(1); return "" }`},
}

// selftestOracle: the in-process type-check oracle (go/types with a shared
// source importer) must agree with go/packages (the go command's view) on
// whether a world type-checks, on supported worlds, on worlds with an
// unsupported constituent spliced in, and on worlds whose derived.gen.go has
// been damaged.
func selftestOracle() int {
	ctx := &genCtx{prop: "C09", tier: "quick", bins: buildGenBinaries(), kfs: loadKnownFindings()}
	defer cleanup()
	bad := 0
	n := 0
	for i := 0; i < 60; i++ {
		ts := tape.NewSet(tape.Mix(23, uint64(i)))
		prof := drawProfile(ts.Fork("profile"), "quick")
		w := world.Generate(ts.Fork("world"), prof)
		if i%3 == 1 {
			world.SpliceNegative(w, ts.Fork("splice"), -1)
		}
		dir := filepath.Join(ctx.bins.scratch, fmt.Sprintf("o%d", i))
		files := w.Render()
		writeWorld(dir, files)
		runGoderive(ctx.bins.inst, dir, worldPkgs(w), &Plan{MapMode: "identity"}, 0)
		if i%3 == 2 {
			// damage the generated file: drop its last 40 bytes
			p := filepath.Join(dir, "p", "derived.gen.go")
			if b, err := os.ReadFile(p); err == nil && len(b) > 60 {
				os.WriteFile(p, b[:len(b)-40], 0o644)
			}
		}
		_, fast := typecheckWorld(dir, worldPkgs(w)...)
		slow := typecheckEnv(dir, goEnv(), worldPkgs(w)...)
		n++
		if (len(fast) == 0) != (len(slow) == 0) {
			bad++
			fmt.Printf("selftest oracle: world %d: in-process oracle says %v, go/packages says %v\n", i, fast, slow)
		}
		os.RemoveAll(dir)
	}
	fmt.Printf("selftest oracle: %d worlds, %d disagreements between the in-process oracle and go/packages\n", n, bad)
	// the C12 canonical form: insensitive to function order, function names
	// and which same-named import gets the short alias; sensitive to bodies
	// and to which package a qualified type comes from
	def := func(pl string) string { return world.PluginPrefix[pl] }
	g1 := "package p\n\nimport (\n\text \"example.com/w/ext\"\n\tw_other_ext \"example.com/w/other/ext\"\n)\n\nfunc deriveEqual(this, that *ext.T) bool { return deriveEqual_(this, that) }\n\nfunc deriveEqual_(this, that *w_other_ext.T) bool { return this == that }\n"
	g2 := "package p\n\nimport (\n\tw_ext \"example.com/w/ext\"\n\text \"example.com/w/other/ext\"\n)\n\nfunc deriveEqual_1(this, that *ext.T) bool { return this == that }\n\nfunc deriveEqual_7(this, that *w_ext.T) bool { return deriveEqual_1(this, that) }\n"
	g3 := strings.Replace(g2, "*w_ext.T", "*ext.T", 1)
	g4 := strings.Replace(g2, "this == that", "this != that", 1)
	c1, e1 := canonicalDerived(g1, def)
	c2, e2 := canonicalDerived(g2, def)
	c3, _ := canonicalDerived(g3, def)
	c4, _ := canonicalDerived(g4, def)
	if e1 != nil || e2 != nil || c1 != c2 || c1 == c3 || c1 == c4 {
		bad++
		fmt.Printf("selftest oracle: canonical form of generated files is wrong: %v %v\n%s\n--\n%s\n--\n%s\n", e1, e2, c1, c2, c3)
	}
	if bad > 0 {
		return 1
	}
	fmt.Println("selftest oracle: ok")
	return 0
}
