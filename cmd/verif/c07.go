package main

import (
	"fmt"
	"go/ast"
	"go/parser"
	"go/token"
	"os"
	"path/filepath"
	"sort"
	"strings"
	"time"

	"verif/internal/world"
	"verif/tape"
)

func init() {
	checks["C07"] = func(o checkOpts) int {
		return runGenCheck(o, "exploration",
			genBudget{cases: 400, wall: 90 * time.Second, shrinkN: 30, shrinkT: 60 * time.Second},
			genBudget{cases: 4000, wall: 25 * time.Minute, shrinkN: 150, shrinkT: 8 * time.Minute},
			"one case = one history over a generated module: 1-4 tape-drawn steps (edit the sources: retype/add/remove fields, add/remove/rename calls, change the map type flowing from an inner derive call into an outer one, add types, remove all calls; run; run interrupted by a crash before an operation or inside a write; run hitting ENOSPC mid-write) followed by a fault-free run, whose exit status and derived.gen.go bytes must equal those of a from-scratch run on the same sources under the same map plan; then, per history, the recovery points are enumerated (a crash at every mutating-operation boundary and at a set of byte offsets of every write of the final run: 0, 1, header end +-1, line ends, n/2, n-1, in the thorough tier also every 64th byte; derived.gen.go replaced by the first k bytes of the previous and of the new output at the same offsets) and a tape-drawn share of them is executed (a twelfth in the quick tier, a third in the thorough tier, always offset 0 and the first write), each followed by a recovery run that must reach the scratch result; distinct = distinct (world, history) hash; non-trivial = history contains an edit or a fault",
			[]string{"process-crash model: bytes handed to write(2) survive a crash (no power-loss reordering; goderive never syncs and the property does not mention it)"})
	}
	genCases["C07"] = c07Case
	genDirected["C07"] = c07Directed
}

// c07Directed replays a committed history: each version is written and run
// in turn; after the last run the result must equal the from-scratch result.
func c07Directed(ctx *genCtx, in *DirectedInput, dir string) *genViolation {
	hist, scr := filepath.Join(dir, "h"), filepath.Join(dir, "s")
	plan := &Plan{MapMode: "identity"}
	args := in.Args
	if len(args) == 0 {
		args = []string{"./p"}
	}
	var r *genRun
	prior := ""
	for _, files := range in.Versions {
		writeWorld(hist, files)
		prior = derivedFiles(hist)["p/derived.gen.go"]
		r = runGoderive(ctx.bins.inst, hist, append(append([]string{}, in.Flags...), args...), plan, 0)
	}
	last := in.Versions[len(in.Versions)-1]
	sr, sfiles := scratchRun(ctx, last, scr, in.Flags, args, plan)
	got := derivedFiles(hist)
	facts := map[string]string{"stderr": r.Stderr, "sources": joinFiles(userSources(last)), "stale_inner": staleInner(prior, sfiles["p/derived.gen.go"], innerCallNames(userSources(last)))}
	if r.Exit != sr.Exit {
		return &genViolation{Clause: "stale-induced-failure", Detail: fmt.Sprintf("run exits %d, from scratch %d", r.Exit, sr.Exit), Facts: facts}
	}
	if ok, d := sameDerived(got, sfiles); !ok {
		clause := "bytes-differ"
		if errs := typecheck(hist, args...); len(errs) > 0 {
			clause = "not-typecheck"
			d += " | " + strings.Join(errs, " | ")
		}
		return &genViolation{Clause: clause, Detail: d, Facts: facts}
	}
	return nil
}

// scratchRun: same binary, same plan, fresh copy of the sources without any derived.gen.go.
func scratchRun(ctx *genCtx, files map[string]string, dir string, flags, args []string, plan *Plan) (*genRun, map[string]string) {
	os.RemoveAll(dir)
	writeWorld(dir, files)
	r := runGoderive(ctx.bins.inst, dir, append(append([]string{}, flags...), args...), plan, 0)
	return r, derivedFiles(dir)
}

func sameDerived(a, b map[string]string) (bool, string) {
	for _, k := range sortedKeysStr(a) {
		if bv, ok := b[k]; !ok {
			return false, k + ": present after the history, absent from scratch"
		} else if bv != a[k] {
			return false, k + ": " + firstDiff(bv, a[k])
		}
	}
	for _, k := range sortedKeysStr(b) {
		if _, ok := a[k]; !ok {
			return false, k + ": absent after the history, present from scratch"
		}
	}
	return true, ""
}

// sameFuncsReordered: the two files consist of the same top-level chunks in a different order.
func sameFuncsReordered(a, b string) bool {
	split := func(s string) []string {
		parts := strings.Split(s, "\n\n")
		sort.Strings(parts)
		return parts
	}
	if a == b {
		return false
	}
	x, y := split(a), split(b)
	if len(x) != len(y) {
		return false
	}
	for i := range x {
		if x[i] != y[i] {
			return false
		}
	}
	return true
}

// innerCallNames: names of functions called in argument position of another
// call f(g(...)) in the user sources (the derive results that flow into
// another derive call).
func innerCallNames(files map[string]string) []string {
	set := map[string]bool{}
	fset := token.NewFileSet()
	for _, k := range sortedKeysStr(files) {
		if !strings.HasSuffix(k, ".go") {
			continue
		}
		f, err := parser.ParseFile(fset, k, files[k], 0)
		if err != nil {
			continue
		}
		ast.Inspect(f, func(n ast.Node) bool {
			c, ok := n.(*ast.CallExpr)
			if !ok {
				return true
			}
			if _, ok := c.Fun.(*ast.Ident); !ok {
				return true
			}
			for _, a := range c.Args {
				if ic, ok := a.(*ast.CallExpr); ok {
					if id, ok := ic.Fun.(*ast.Ident); ok {
						set[id.Name] = true
					}
				}
			}
			return true
		})
	}
	var out []string
	for k := range set {
		out = append(out, k)
	}
	sort.Strings(out)
	return out
}

// staleInner: the derived.gen.go on disk before the run declares a function
// that the sources call in argument position of another call with a
// signature line different from the one a from-scratch run emits (an older
// signature, or one cut off by a truncation).
func staleInner(prior, expected string, inner []string) string {
	for _, name := range inner {
		hdr := func(s string) string {
			i := strings.Index(s, "\nfunc "+name+"(")
			if i < 0 {
				return ""
			}
			rest := s[i+1:]
			if j := strings.IndexByte(rest, '\n'); j >= 0 {
				return rest[:j]
			}
			return rest + "<cut>"
		}
		ph, eh := hdr(prior), hdr(expected)
		if ph != "" && ph != eh {
			return name
		}
	}
	return ""
}

func crashOffsets(n int, content string, thorough bool) []int {
	set := map[int]bool{0: true, 1: true, n / 2: true, n - 1: true}
	hdr := strings.Index(content, "\n\n")
	for _, k := range []int{hdr - 1, hdr, hdr + 1} {
		set[k] = true
	}
	lines := 0
	for i := 0; i < len(content); i++ {
		if content[i] == '\n' {
			lines++
			if lines <= 40 || thorough {
				set[i] = true
				set[i+1] = true
			}
		}
	}
	if thorough {
		for k := 0; k < n; k += 64 {
			set[k] = true
		}
	}
	var out []int
	for k := range set {
		if k >= 0 && k < n {
			out = append(out, k)
		}
	}
	sort.Ints(out)
	return out
}

func c07Case(ctx *genCtx, ts *tape.Set, dir string) *genResult {
	pt := ts.Fork("profile")
	prof := drawProfile(pt, ctx.tier)
	prof.Q = pt.Intn(5) == 0
	if pt.Intn(3) > 0 {
		prof.Nested = true
	}
	if ts.Fork("ext").Intn(4) == 0 {
		// same-named imported packages present: the import names of the generated file are part of its bytes
		prof.Ext, prof.Force = true, true
	}
	if os.Getenv("VERIF_C07_NOEXT") != "" {
		prof.Ext, prof.Q = false, false // development aid: measure what module-local imports cost
	}
	w := world.Generate(ts.Fork("world"), prof)
	plan := drawPlan(ts.Fork("plan"))
	plan.PkgOrder = 0
	targs := worldPkgs(w)
	args := targs
	// how the packages are named on the command line (all executions of a history alike)
	switch ts.Fork("spelling").Intn(5) {
	case 3:
		args = nil
		for _, a := range targs {
			args = append(args, world.ModulePath+"/"+strings.TrimPrefix(a, "./"))
		}
	case 4:
		args = []string{"./..."}
	}
	var flags []string
	if pt.Intn(5) == 0 {
		// "for the current sources and flags": histories under customised prefixes
		w.DrawPrefixes(ts.Fork("prefix"))
		flags = w.PrefixFlags()
	}
	ht := ts.Fork("history")
	hist := filepath.Join(dir, "h")
	scr := filepath.Join(dir, "s")
	pre := filepath.Join(dir, "pre")
	res := &genResult{Sample: map[string]any{"plan": plan, "args": args, "flags": flags}}
	var log []string
	files := w.Render()
	writeWorld(hist, files)
	versions := []map[string]string{userSources(files)}
	editKinds := ""

	lastPrior := ""
	facts := func(extra map[string]string) map[string]string {
		f := map[string]string{"history": strings.Join(log, "\n"), "edits": editKinds, "sources": joinFiles(userSources(files)), "stale_inner": ""}
		for _, k := range sortedKeysStr(extra) {
			f[k] = extra[k]
		}
		return f
	}

	// check compares the disk after a fault-free run r with the scratch result.
	check := func(r *genRun, prior string) *genViolation {
		sr, sfiles := scratchRun(ctx, files, scr, flags, args, plan)
		res.count(sr)
		got := derivedFiles(hist)
		if m := noCrash(r); m != "" {
			res.SawPanic = true
		}
		if r.Exit != sr.Exit {
			clause := "exit-differs"
			if sr.Exit == 0 {
				clause = "stale-induced-failure"
			}
			return &genViolation{Clause: clause, Detail: fmt.Sprintf("after [%s] with prior state {%s}: run exits %d (%s) but a from-scratch run on the same sources exits %d (%s)", strings.Join(log, "; "), prior, r.Exit, firstLines(r.Stderr, 2), sr.Exit, firstLines(sr.Stderr, 2)),
				Facts: facts(map[string]string{"stderr": r.Stderr, "prior": prior, "stale_inner": staleInner(lastPrior, sfiles["p/derived.gen.go"], innerCallNames(userSources(files)))})}
		}
		if ok, d := sameDerived(got, sfiles); !ok {
			clause := "bytes-differ"
			reordered := "false"
			if sameFuncsReordered(got["p/derived.gen.go"], sfiles["p/derived.gen.go"]) {
				reordered = "true"
			}
			if sr.Exit == 0 {
				if errs := typecheck(hist, targs...); len(errs) > 0 {
					clause = "not-typecheck"
					d += " | " + strings.Join(errs, " | ")
				}
			}
			return &genViolation{Clause: clause, Detail: fmt.Sprintf("after [%s] with prior state {%s}: %s", strings.Join(log, "; "), prior, d),
				Facts: facts(map[string]string{"stderr": r.Stderr, "prior": prior, "reordered": reordered, "diff": d, "stale_inner": staleInner(lastPrior, sfiles["p/derived.gen.go"], innerCallNames(userSources(files)))})}
		}
		return nil
	}

	run := func(faults []Fault) *genRun {
		lastPrior = derivedFiles(hist)["p/derived.gen.go"]
		p := *plan
		p.Faults = faults
		r := runGoderive(ctx.bins.inst, hist, append(append([]string{}, flags...), args...), &p, 0)
		res.count(r)
		return r
	}

	derivedOps := func(r *genRun) []traceOp {
		var out []traceOp
		for _, o := range r.Ops {
			if strings.HasSuffix(o.Path, "derived.gen.go") {
				out = append(out, o)
			}
		}
		return out
	}

	nsteps := 2 + ht.Intn(3)
	dirty := true
	interesting := false
	startWithRun := ht.Intn(3) > 0 // most histories first generate for v1, then change things
	for s := 0; s < nsteps && res.V == nil; s++ {
		kind := ht.Intn(7)
		if s == 0 && startWithRun {
			kind = 2
		} else if s == 0 {
			nsteps++
		}
		if kind == 6 {
			kind = 0
		}
		switch kind {
		case 0, 1: // edit
			d := world.Edit(w, ht, prof)
			log = append(log, "edit:"+d)
			editKinds += strings.SplitN(d, " ", 2)[0] + ","
			files = w.Render()
			writeWorld(hist, files)
			versions = append(versions, userSources(files))
			dirty = true
			interesting = true
		case 2: // fault-free run + invariant
			r := run(nil)
			log = append(log, fmt.Sprintf("run(exit %d)", r.Exit))
			if strings.Contains(r.Stderr, "could not yet generate") {
				res.probe("reload_pass_2")
			}
			if v := check(r, "as left by the previous steps"); v != nil {
				if k := ctx.known(v); k != nil {
					res.knownHit(k)
				} else {
					res.V = v
				}
			}
			dirty = false
		case 3: // crash-run
			disc := filepath.Join(dir, "disc")
			os.RemoveAll(disc)
			copyTree(hist, disc, nil)
			dr := runGoderive(ctx.bins.inst, disc, append(append([]string{}, flags...), args...), plan, 0)
			res.count(dr)
			ops := derivedOps(dr)
			os.RemoveAll(disc)
			if len(ops) == 0 {
				continue
			}
			o := ops[ht.Intn(len(ops))]
			f := Fault{Kind: "crash-before", Op: o.Idx}
			if o.Kind == "write" && ht.Bool() {
				f = Fault{Kind: "crash-in-write", Op: o.Idx, K: ht.Intn(o.N + 1)}
			}
			r := run([]Fault{f})
			if r.Crashed {
				res.fault(f.Kind)
				interesting = true
			}
			log = append(log, fmt.Sprintf("crash-run(%s op %d %s k=%d -> exit %d)", f.Kind, f.Op, o.Kind, f.K, r.Exit))
			dirty = true
		case 4: // short write (ENOSPC)
			disc := filepath.Join(dir, "disc")
			os.RemoveAll(disc)
			copyTree(hist, disc, nil)
			dr := runGoderive(ctx.bins.inst, disc, append(append([]string{}, flags...), args...), plan, 0)
			res.count(dr)
			var ws []traceOp
			for _, o := range derivedOps(dr) {
				if o.Kind == "write" {
					ws = append(ws, o)
				}
			}
			os.RemoveAll(disc)
			if len(ws) == 0 {
				continue
			}
			o := ws[ht.Intn(len(ws))]
			f := Fault{Kind: "short-write", Op: o.Idx, K: ht.Intn(o.N + 1), Errno: "ENOSPC"}
			r := run([]Fault{f})
			if strings.Contains(r.Trace, "fault short-write") {
				res.fault("short-write")
				interesting = true
			}
			log = append(log, fmt.Sprintf("short-write-run(op %d k=%d -> exit %d)", f.Op, f.K, r.Exit))
			dirty = true
			if r.Exit == 0 && strings.Contains(r.Trace, "fault short-write") {
				// the run claims success although a write failed: what it left must still be the from-scratch bytes
				if v := check(r, "a run that exits 0 although a write of derived.gen.go failed with ENOSPC"); v != nil {
					v.Clause = "success-after-failed-write"
					res.V = v
				}
			}
		case 5: // I/O error on create / close / remove
			disc := filepath.Join(dir, "disc")
			os.RemoveAll(disc)
			copyTree(hist, disc, nil)
			dr := runGoderive(ctx.bins.inst, disc, append(append([]string{}, flags...), args...), plan, 0)
			res.count(dr)
			ops := derivedOps(dr)
			os.RemoveAll(disc)
			if len(ops) == 0 {
				continue
			}
			o := ops[ht.Intn(len(ops))]
			f := Fault{Kind: "err", Op: o.Idx, Errno: []string{"EIO", "EACCES", "ENOSPC", "EROFS"}[ht.Intn(4)]}
			r := run([]Fault{f})
			if strings.Contains(r.Trace, "fault err") {
				res.fault("err-" + o.Kind)
				interesting = true
			}
			log = append(log, fmt.Sprintf("io-error-run(%s on %s op %d -> exit %d)", f.Errno, o.Kind, f.Op, r.Exit))
			dirty = true
			if r.Exit == 0 && strings.Contains(r.Trace, "fault err") {
				if v := check(r, fmt.Sprintf("a run that exits 0 although %s of derived.gen.go failed with %s", o.Kind, f.Errno)); v != nil {
					v.Clause = "success-after-failed-" + o.Kind
					res.V = v
				}
			}
		}
	}
	_ = dirty
	res.Sample["history"] = log
	res.Sample["files"] = userSources(files)
	res.Hash = worldHash(files, strings.Join(log, ";"), fmt.Sprint(*plan))
	res.Nontrivial = interesting
	if res.V != nil {
		return res
	}
	// final fault-free run from the state the history left
	os.RemoveAll(pre)
	copyTree(hist, pre, nil)
	prev := derivedFiles(pre)["p/derived.gen.go"]
	r := run(nil)
	log = append(log, fmt.Sprintf("final-run(exit %d)", r.Exit))
	res.Sample["history"] = log
	if v := check(r, "as left by the history"); v != nil {
		if k := ctx.known(v); k != nil {
			res.knownHit(k)
			// bring the disk to the scratch state so that the sweeps below start from a defined state
			r = run(nil)
		} else {
			res.V = v
			return res
		}
	}
	if r.Exit != 0 {
		return res
	}
	sr, expected := scratchRun(ctx, files, scr, flags, args, plan)
	res.count(sr)
	if sr.Exit != 0 {
		return res
	}
	newOut := expected["p/derived.gen.go"]
	finalOps := derivedOps(r)

	// enumerated recovery checks from the pre-final state
	recov := filepath.Join(dir, "rc")
	recover := func(desc string, prep func(d string) bool) *genViolation {
		os.RemoveAll(recov)
		copyTree(pre, recov, nil)
		if !prep(recov) {
			return nil
		}
		priorContent := derivedFiles(recov)["p/derived.gen.go"]
		si := staleInner(priorContent, newOut, innerCallNames(userSources(files)))
		rr := runGoderive(ctx.bins.inst, recov, append(append([]string{}, flags...), args...), plan, 0)
		res.count(rr)
		got := derivedFiles(recov)
		if rr.Exit != 0 {
			return &genViolation{Clause: "stale-induced-failure", Detail: fmt.Sprintf("after [%s], prior state {%s}: the next run exits %d (%s) although a from-scratch run on the same sources succeeds", strings.Join(log, "; "), desc, rr.Exit, firstLines(rr.Stderr, 2)),
				Facts: facts(map[string]string{"stderr": rr.Stderr, "prior": desc, "stale_inner": si})}
		}
		if ok, d := sameDerived(got, expected); !ok {
			return &genViolation{Clause: "bytes-differ", Detail: fmt.Sprintf("after [%s], prior state {%s}: %s", strings.Join(log, "; "), desc, d),
				Facts: facts(map[string]string{"stderr": rr.Stderr, "prior": desc, "diff": d, "stale_inner": si})}
		}
		return nil
	}
	thorough := ctx.tier == "thorough"
	// quick tier: a tape-drawn sample of the enumerated recovery points (the
	// thorough tier enumerates all of them for every history)
	st := ts.Fork("sweep")
	cut := false
	// quick tier: every other history goes without recovery points at all, so that the batch reaches
	// more histories (the edit / rerun clauses need histories, the recovery clauses need points)
	sweepThis := st.Intn(2) == 0
	if thorough {
		// thorough tier: a third of the histories get recovery points, half of the enumerated points each:
		// the 25-minute batch then reaches about three times as many histories as with points for all of them
		sweepThis = st.Intn(3) == 0
	}
	keep := func(always bool) bool {
		if !sweepThis {
			return false
		}
		if !ctx.deadline.IsZero() && time.Now().After(ctx.deadline) {
			cut = true
			return false // the batch's wall-clock budget is used up: finish this history without further recovery points
		}
		if always {
			return true
		}
		if thorough {
			return st.Intn(2) == 0
		}
		return st.Intn(12) == 0
	}
	// (1) crash at every mutating-operation boundary and inside every write
	for _, o := range finalOps {
		pts := []Fault{{Kind: "crash-before", Op: o.Idx}}
		if o.Kind == "write" {
			// offsets relative to this write
			content := newOut
			for _, k := range crashOffsets(o.N, content, false) {
				if thorough || k < 3 || k == o.N/2 || k == o.N-1 {
					pts = append(pts, Fault{Kind: "crash-in-write", Op: o.Idx, K: k})
				}
			}
		}
		for pi, f := range pts {
			f := f
			if !keep(pi == 0 && o.Kind == "write") {
				continue
			}
			v := recover(fmt.Sprintf("crash %s at op %d (%s) k=%d of the final run", f.Kind, f.Op, o.Kind, f.K), func(d string) bool {
				p := *plan
				p.Faults = []Fault{f}
				cr := runGoderive(ctx.bins.inst, d, append(append([]string{}, flags...), args...), &p, 0)
				res.count(cr)
				if cr.Crashed {
					res.fault("sweep-" + f.Kind)
				}
				return cr.Crashed
			})
			if v != nil {
				if k := ctx.known(v); k != nil {
					res.knownHit(k)
					continue
				}
				res.V = v
				return res
			}
		}
	}
	// (2) derived.gen.go = first k bytes of the new / of the previous output
	for _, src := range []struct{ name, content string }{{"new", newOut}, {"previous", prev}} {
		if src.content == "" {
			continue
		}
		for _, k := range crashOffsets(len(src.content), src.content, thorough) {
			k := k
			if !keep(k == 0 && src.name == "new") {
				continue
			}
			v := recover(fmt.Sprintf("derived.gen.go = first %d of %d bytes of the %s output", k, len(src.content), src.name), func(d string) bool {
				res.fault("truncated-" + src.name)
				return os.WriteFile(filepath.Join(d, "p", "derived.gen.go"), []byte(src.content[:k]), 0o644) == nil
			})
			if v != nil {
				if k := ctx.known(v); k != nil {
					res.knownHit(k)
					continue
				}
				res.V = v
				return res
			}
		}
	}
	if cut {
		res.probe("sweep.cut_short_by_budget")
	} else {
		res.probe("sweep.completed")
	}
	return res
}
