package main

import (
	"bytes"
	"crypto/sha256"
	"encoding/hex"
	"encoding/json"
	"fmt"
	"go/format"
	"io/fs"
	"os"
	"path/filepath"
	"sort"
	"strings"
	"sync"
	"time"

	"golang.org/x/tools/go/packages"

	"verif/internal/world"
)

// Plan mirrors verifsim.Plan.
type Plan struct {
	MapMode     string  `json:"map_mode"`
	MapSeed     uint64  `json:"map_seed"`
	PkgOrder    uint64  `json:"pkg_order_seed"`
	PluginOrder uint64  `json:"plugin_order_seed"`
	Faults      []Fault `json:"faults,omitempty"`
}

type Fault struct {
	Kind  string `json:"kind"`
	Op    int    `json:"op"`
	K     int    `json:"k"`
	Errno string `json:"errno,omitempty"`
	Path  string `json:"path,omitempty"`
	Nth   int    `json:"nth,omitempty"`
}

// genRun is one simulated execution of goderive.
type genRun struct {
	Exit     int
	Stderr   string
	TimedOut bool
	Ops      []traceOp
	MapSites int
	Trace    string
	Wall     time.Duration
	Crashed  bool
	NotGofmt bool
}

type traceOp struct {
	Idx  int
	Kind string
	Path string
	N    int
}

// watchdog: more than 100x the typical 0.2-0.5 s of one execution (20 s was hit on a machine running three batches at once); a timeout is
// re-run once, alone, before it counts as a hang.
const genWatchdog = 60 * time.Second

var retryMu sync.Mutex

// runGoderive executes bin in dir (a package directory or module root) with
// the given arguments under plan (nil = plain run, no VERIF_PLAN).
func runGoderive(bin, dir string, args []string, plan *Plan, gomaxprocs int, extraEnv ...string) *genRun {
	env := goEnv(extraEnv...)
	// the simulated goderive runs with the user's defaults, not with the -mod=mod this harness needs
	// to build things offline: whether go.mod may be touched is part of what is observed (C10)
	for i, kv := range env {
		if strings.HasPrefix(kv, "GOFLAGS=") {
			env[i] = "GOFLAGS="
		}
	}
	var tracePath string
	if plan != nil {
		pf, _ := os.CreateTemp(filepath.Dir(bin), "plan*.json")
		b, _ := json.Marshal(plan)
		pf.Write(b)
		pf.Close()
		defer os.Remove(pf.Name())
		tf, _ := os.CreateTemp(filepath.Dir(bin), "trace*.txt")
		tf.Close()
		tracePath = tf.Name()
		defer os.Remove(tracePath)
		env = append(env, "VERIF_PLAN="+pf.Name(), "VERIF_TRACE="+tracePath)
	}
	if gomaxprocs > 0 {
		env = append(env, fmt.Sprintf("GOMAXPROCS=%d", gomaxprocs))
	}
	// the simulated process gets a virtual-memory ceiling (a runaway generation loop is cut off as
	// "fatal error: out of memory" after a second or two instead of eating the machine until the watchdog fires)
	shArgs := append([]string{"-c", `ulimit -v 3500000; exec "$0" "$@"`, bin}, args...)
	r := runCmd(dir, env, genWatchdog, "/bin/sh", shArgs...)
	if r.TimedOut && plan != nil && len(plan.Faults) == 0 {
		retryMu.Lock()
		os.Truncate(tracePath, 0)
		r = runCmd(dir, env, 2*genWatchdog, "/bin/sh", shArgs...)
		retryMu.Unlock()
	}
	gr := &genRun{Exit: r.Exit, Stderr: r.Stderr, TimedOut: r.TimedOut, Wall: r.Wall}
	if tracePath != "" {
		b, _ := os.ReadFile(tracePath)
		gr.Trace = string(b)
		for _, l := range strings.Split(gr.Trace, "\n") {
			if strings.HasPrefix(l, "op ") {
				var o traceOp
				fmt.Sscanf(l, "op %d %s %s %d", &o.Idx, &o.Kind, &o.Path, &o.N)
				gr.Ops = append(gr.Ops, o)
			} else if strings.HasPrefix(l, "map ") {
				gr.MapSites++
			}
		}
	}
	gr.Crashed = r.Exit == 137
	if os.Getenv("VERIF_DEBUG") != "" {
		fmt.Fprintf(os.Stderr, "DEBUG run dir=%s args=%v exit=%d wall=%v stderr=%s\n", dir, args, r.Exit, r.Wall, firstLines(r.Stderr, 2))
	}
	return gr
}

// noCrash is the C09 clause evaluated on every fault-free execution.
func noCrash(r *genRun) string {
	if r.TimedOut {
		return "hang: no exit within the watchdog"
	}
	if r.Exit != 0 && r.Exit != 1 {
		return fmt.Sprintf("exit status %d", r.Exit)
	}
	for _, m := range []string{"panic:", "goroutine ", "fatal error:", "runtime error"} {
		if strings.Contains(r.Stderr, m) {
			return "stderr shows a Go panic: " + firstLines(r.Stderr, 3)
		}
	}
	return ""
}

func firstLines(s string, n int) string {
	ls := strings.Split(strings.TrimSpace(s), "\n")
	if len(ls) > n {
		ls = ls[:n]
	}
	return strings.Join(ls, " | ")
}

// writeWorld writes files (relative path -> content) under dir, removing
// any other .go file that is not derived.gen.go (so that histories can
// rewrite the sources while the old derived file stays).
func writeWorld(dir string, files map[string]string) {
	keep := map[string]bool{}
	for _, rel := range sortedKeysStr(files) {
		p := filepath.Join(dir, rel)
		keep[p] = true
		os.MkdirAll(filepath.Dir(p), 0o755)
		if old, err := os.ReadFile(p); err == nil && string(old) == files[rel] {
			continue
		}
		if err := os.WriteFile(p, []byte(files[rel]), 0o644); err != nil {
			harnessTrouble("writing world: %v", err)
		}
	}
	filepath.WalkDir(dir, func(p string, d fs.DirEntry, err error) error {
		if err != nil || d.IsDir() {
			return nil
		}
		if !keep[p] && d.Name() != "derived.gen.go" {
			os.Remove(p)
		}
		return nil
	})
}

// snapshot: sorted (relative path, mode, size, sha256) of every file.
type snapEntry struct {
	Path string
	Mode string
	Size int64
	Sum  string
}

func snapshot(dir string) []snapEntry {
	var out []snapEntry
	filepath.WalkDir(dir, func(p string, d fs.DirEntry, err error) error {
		if err != nil {
			return nil
		}
		rel, _ := filepath.Rel(dir, p)
		info, err := d.Info()
		if err != nil {
			return nil
		}
		e := snapEntry{Path: rel, Mode: info.Mode().String()}
		if info.Mode().IsRegular() {
			b, _ := os.ReadFile(p)
			h := sha256.Sum256(b)
			e.Sum = hex.EncodeToString(h[:8])
			e.Size = info.Size()
		}
		out = append(out, e)
		return nil
	})
	sort.Slice(out, func(i, j int) bool { return out[i].Path < out[j].Path })
	return out
}

func diffSnap(a, b []snapEntry, ignore func(path string) bool) []string {
	am := map[string]snapEntry{}
	for _, e := range a {
		am[e.Path] = e
	}
	var out []string
	seen := map[string]bool{}
	for _, e := range b {
		seen[e.Path] = true
		if ignore(e.Path) {
			continue
		}
		o, ok := am[e.Path]
		if !ok {
			out = append(out, "created "+e.Path)
		} else if o != e {
			out = append(out, fmt.Sprintf("modified %s (%s %d %s -> %s %d %s)", e.Path, o.Mode, o.Size, o.Sum, e.Mode, e.Size, e.Sum))
		}
	}
	for _, e := range a {
		if !seen[e.Path] && !ignore(e.Path) {
			out = append(out, "deleted "+e.Path)
		}
	}
	sort.Strings(out)
	return out
}

func fileHash(p string) string {
	b, err := os.ReadFile(p)
	if err != nil {
		return "absent"
	}
	h := sha256.Sum256(b)
	return hex.EncodeToString(h[:8])
}

// typecheck loads the given package patterns (with tests) from the world
// and returns the first few errors; also checks derived.gen.go is gofmt-clean.
func typecheck(worldDir string, patterns ...string) []string {
	if os.Getenv("VERIF_SLOW_TYPECHECK") != "" {
		return typecheckEnv(worldDir, goEnv(), patterns...)
	}
	_, errs := typecheckWorld(worldDir, patterns...)
	return errs
}

func typecheckEnv(worldDir string, env []string, patterns ...string) []string {
	cfg := &packages.Config{
		// without NeedDeps the imports come from the build cache's export data instead of being type-checked from source on every call
		Mode:  packages.NeedName | packages.NeedFiles | packages.NeedSyntax | packages.NeedTypes | packages.NeedTypesInfo | packages.NeedImports,
		Dir:   worldDir,
		Env:   env,
		Tests: true,
	}
	pkgs, err := packages.Load(cfg, patterns...)
	if err != nil {
		return []string{"load: " + err.Error()}
	}
	var errs []string
	seen := map[string]bool{}
	for _, p := range pkgs {
		for _, e := range p.Errors {
			m := e.Error()
			m = strings.ReplaceAll(m, worldDir+"/", "")
			if !seen[m] {
				seen[m] = true
				errs = append(errs, m)
			}
		}
	}
	if len(pkgs) == 0 {
		errs = append(errs, "no packages loaded")
	}
	sort.Strings(errs)
	if len(errs) > 6 {
		errs = errs[:6]
	}
	return errs
}

func gofmtClean(path string) string {
	b, err := os.ReadFile(path)
	if err != nil {
		return ""
	}
	f, err := format.Source(b)
	if err != nil {
		return "derived.gen.go does not parse: " + err.Error()
	}
	if !bytes.Equal(f, b) {
		return "derived.gen.go is not gofmt-formatted"
	}
	return ""
}

func derivedFiles(worldDir string) map[string]string {
	out := map[string]string{}
	filepath.WalkDir(worldDir, func(p string, d fs.DirEntry, err error) error {
		if err == nil && !d.IsDir() && d.Name() == "derived.gen.go" {
			rel, _ := filepath.Rel(worldDir, p)
			b, _ := os.ReadFile(p)
			out[rel] = string(b)
		}
		return nil
	})
	return out
}

func removeDerived(worldDir string) {
	for _, rel := range sortedKeysStr(derivedFiles(worldDir)) {
		os.Remove(filepath.Join(worldDir, rel))
	}
}

// gopathLayout turns a module-mode world into a GOPATH-mode one: the same
// packages under <root>/src/example.com/w, no go.mod.
func gopathLayout(files map[string]string) map[string]string {
	out := map[string]string{}
	for _, k := range sortedKeysStr(files) {
		if k == "go.mod" {
			continue
		}
		out["src/example.com/w/"+k] = files[k]
	}
	return out
}

func gopathEnv(root string) []string { return []string{"GO111MODULE=off", "GOPATH=" + root} }

// userSourceProblems type-checks the user sources of a world as written to
// dir (before any goderive run: no derived.gen.go yet) and returns the errors
// that are not about a missing derive function. A world of the *supported*
// workload must have none: one that has is a mistake of the world generator
// (two hand-written functions of one name, a type used as its own map key),
// not something to hold against goderive, and the case is discarded and
// counted (probe world.invalid_discarded) instead of being judged.
func userSourceProblems(dir string, w *world.World, pkgs ...string) []string {
	_, errs := typecheckWorldAll(dir, pkgs...)
	var out []string
	for _, e := range errs {
		if i := strings.Index(e, "undefined: "); i >= 0 {
			name := strings.TrimSpace(e[i+len("undefined: "):])
			derive := false
			for _, pl := range world.AllPlugins {
				if px := w.PrefixOf(pl); px != "" && strings.HasPrefix(name, px) {
					derive = true
					break
				}
			}
			if derive {
				continue
			}
		}
		out = append(out, e)
	}
	return out
}
