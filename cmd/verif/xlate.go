package main

import (
	"encoding/json"
	"fmt"
	"os"

	"verif/internal/xlate"
)

func cmdXlate(args []string) int {
	if len(args) != 2 {
		usage()
	}
	rep, err := xlate.TranslateDir(args[0], args[1], true, os.Getenv("VERIF_LANG"))
	if err != nil {
		fmt.Fprintln(os.Stderr, "xlate:", err)
		return 2
	}
	b, _ := json.MarshalIndent(rep, "", " ")
	fmt.Println(string(b))
	return 0
}
