package main

import (
	"bytes"
	"fmt"
	"go/ast"
	"go/format"
	"go/parser"
	"go/token"
	"os"
	"path/filepath"
	"sort"
	"strings"
	"time"

	"verif/internal/world"
	"verif/tape"
)

func init() {
	checks["C10"] = func(o checkOpts) int {
		return runGenCheck(o, "exploration",
			genBudget{cases: 3000, wall: 80 * time.Second, shrinkN: 40, shrinkT: 60 * time.Second},
			genBudget{cases: 12000, wall: 25 * time.Minute, shrinkN: 200, shrinkT: 8 * time.Minute},
			"one case = one generated module, snapshotted (path, mode, size, sha256 of every file) before and after one goderive execution. Without -autoname/-dedup the execution ends in a tape-chosen outcome: success, generator error (unsupported argument spliced in), load error (nonexistent package argument), or an injected I/O fault on derived.gen.go (error on create / write / close / remove, ENOSPC short write); the snapshots may differ only in derived.gen.go of the processed package directories. With the flags, on a module with injected name conflicts / duplicates (new names shorter, equal, longer; files gofmt-clean or not; //line directives), every user file must be byte-identical to the original if none of its call identifiers changed, and otherwise equal to gofmt(original with exactly those identifiers substituted), the substitution computed from an independent parse; distinct = (world, flags, outcome) hash; non-trivial = a fault fired, an error outcome was reached or a file was rewritten",
			[]string{"the end state decides (an atomic write-to-temp-then-rename implementation would not be flagged); the intercepted operation trace is evidence only"})
	}
	genCases["C10"] = c10Case
}

// callIdents returns the identifiers in call position f(...) of a file, in source order.
func callIdents(src []byte) ([]*ast.Ident, *token.FileSet, error) {
	fset := token.NewFileSet()
	f, err := parser.ParseFile(fset, "x.go", src, parser.ParseComments)
	if err != nil {
		return nil, nil, err
	}
	var ids []*ast.Ident
	ast.Inspect(f, func(n ast.Node) bool {
		if c, ok := n.(*ast.CallExpr); ok {
			if id, ok := c.Fun.(*ast.Ident); ok {
				ids = append(ids, id)
			}
		}
		return true
	})
	sort.Slice(ids, func(i, j int) bool { return ids[i].Pos() < ids[j].Pos() })
	return ids, fset, nil
}

// expectedRewrite: the original with the call identifiers replaced by the
// names found at the same ordinal positions in the rewritten file, gofmt'ed.
// renamed reports whether any identifier changed.
func expectedRewrite(orig, after []byte) (want []byte, renamed bool, nchanged int, problem string) {
	oi, ofs, err := callIdents(orig)
	if err != nil {
		return nil, false, 0, "" // the original does not parse: nothing to demand
	}
	ai, _, err := callIdents(after)
	if err != nil {
		return nil, true, 0, "the file no longer parses after the run: " + err.Error()
	}
	if len(oi) != len(ai) {
		return nil, true, 0, fmt.Sprintf("the file has %d call expressions after the run, %d before", len(ai), len(oi))
	}
	out := append([]byte(nil), orig...)
	// substitute from the end so that offsets stay valid
	for i := len(oi) - 1; i >= 0; i-- {
		if oi[i].Name == ai[i].Name {
			continue
		}
		renamed = true
		nchanged++
		off := ofs.Position(oi[i].Pos()).Offset
		out = append(out[:off:off], append([]byte(ai[i].Name), out[off+len(oi[i].Name):]...)...)
	}
	if !renamed {
		return orig, false, 0, ""
	}
	f, err := format.Source(out)
	if err != nil {
		return nil, true, nchanged, "substituted original does not format: " + err.Error()
	}
	return f, true, nchanged, ""
}

func c10Case(ctx *genCtx, ts *tape.Set, dir string) *genResult {
	mt := ts.Fork("mode")
	prof := drawProfile(ts.Fork("profile"), ctx.tier)
	withFlags := mt.Intn(5) >= 2
	if withFlags {
		prof.Nested = false
		prof.Q = false
		prof.UserFuncs = false
		prof.TestFile = mt.Bool()
		prof.Unformatted = true
		prof.LineDirective = mt.Chance(1, 3)
		if prof.MaxCalls < 3 {
			prof.MaxCalls = 3
		}
	} else {
		prof.LineDirective = mt.Chance(1, 3)
	}
	w := world.Generate(ts.Fork("world"), prof)
	res := &genResult{Sample: map[string]any{}}
	var flags []string
	args := []string{"./p"}
	processed := map[string]bool{"p": true}
	outcome := "success"
	var did []string
	if withFlags {
		switch mt.Intn(3) {
		case 0:
			flags = []string{"-autoname"}
		case 1:
			flags = []string{"-dedup"}
		default:
			flags = []string{"-autoname", "-dedup"}
		}
		if mt.Bool() {
			// the clash is added to a package that has been generated before
			writeWorld(dir, w.Render())
			pr := runGoderive(ctx.bins.inst, dir, []string{"./p"}, &Plan{MapMode: "identity"}, 0)
			res.count(pr)
			res.probe("flags.prior_derived_file")
		}
		did = world.MakeCollisions(w, ts.Fork("collide"), mt.Intn(3) > 0, mt.Intn(3) > 0)
		if mt.Intn(4) == 0 {
			// a conflict between calls that only become typable in the second pass: the rename happens after a reload
			did = append(did, world.AddNestedConflict(w, 7000, []string{"sort", "unique"}[mt.Intn(2)]))
		}
		outcome = "flags"
	} else {
		switch mt.Intn(6) {
		case 0, 1:
		case 2:
			outcome = "generator-error"
			if w.RawFiles == nil {
				w.RawFiles = map[string]string{}
			}
			bad := []string{
				"package p\n\nfunc zzBad(a, b chan int) bool { return deriveEqualBad(a, b) }\n",
				"package p\n\nfunc zzBad(a, b func()) int { return deriveCompareBad(a, b) }\n",
				"package p\n\nfunc zzBad() []int { return deriveKeysBad(42) }\n",
				"package p\n\nfunc zzBad(l []interface{}) []interface{} { return deriveSortBad(l) }\n",
			}
			w.RawFiles["p/zz_bad.go"] = bad[mt.Intn(len(bad))]
		case 3:
			outcome = "load-error"
			args = [][]string{{"./p", "./nonexistent"}, {"./nonexistent", "./p"}, {world.ModulePath + "/nope"}, {"./p", "-x"}}[mt.Intn(4)]
		case 4:
			outcome = "io-fault"
		case 5:
			if mt.Bool() && w.PName == "" {
				outcome = "read-fault" // a source file cannot be read: load error (GOPATH-mode world, see verifsim.InstallBuildHooks)
			} else {
				outcome = "io-fault"
			}
		}
		if w.HasQ && mt.Bool() {
			args = append(args, "./q")
			processed["q"] = true
		}
	}
	if !withFlags && outcome != "read-fault" && mt.Intn(6) == 0 {
		// a go.mod the go command could "repair" (a replaced module that is imported but not required):
		// goderive must not let its go list children rewrite it
		if w.RawFiles == nil {
			w.RawFiles = map[string]string{}
		}
		w.RawFiles["go.mod"] = "module " + world.ModulePath + "\n\ngo 1.24\n\nreplace example.com/wdep => ./dep\n"
		w.RawFiles["dep/go.mod"] = "module example.com/wdep\n\ngo 1.24\n"
		w.RawFiles["dep/dep.go"] = "package wdep\n\ntype D struct{ A int }\n"
		w.RawFiles["p/zz_dep.go"] = "package p\n\nimport \"example.com/wdep\"\n\nvar _ wdep.D\n"
		res.probe("world.untidy_go_mod")
	}
	files := w.Render()
	var runEnv []string
	root := dir
	if outcome == "read-fault" {
		files = gopathLayout(files)
		runEnv = gopathEnv(dir)
		root = filepath.Join(dir, "src/example.com/w")
		for k := range processed {
			processed["src/example.com/w/"+k] = processed[k]
		}
	}
	writeWorld(dir, files)
	// with the flags, one case in two gives one source file of p an unusual shape on disk: a symbolic
	// link to a file outside the package, a second hard link, or other permission bits. A rewrite goes
	// through the name: the link stays a link, both names keep one content, the bits stay.
	linkTarget, linkedFile := "", ""
	if withFlags && outcome == "flags" {
		ft := ts.Fork("fsshape")
		var pfiles []string
		for _, k := range sortedKeysStr(files) {
			if strings.HasPrefix(k, "p/") && strings.HasSuffix(k, ".go") {
				pfiles = append(pfiles, k)
			}
		}
		if shape := ft.Intn(6); shape >= 3 && len(pfiles) > 0 {
			f := pfiles[ft.Intn(len(pfiles))]
			target := "_shared/" + filepath.Base(f)
			switch shape {
			case 3:
				os.MkdirAll(filepath.Join(dir, "_shared"), 0o755)
				if os.Rename(filepath.Join(dir, f), filepath.Join(dir, target)) == nil && os.Symlink("../"+target, filepath.Join(dir, f)) == nil {
					linkTarget, linkedFile = target, f
					res.probe("world.symlinked_source")
				}
			case 4:
				os.MkdirAll(filepath.Join(dir, "_shared"), 0o755)
				if os.Link(filepath.Join(dir, f), filepath.Join(dir, target)) == nil {
					linkTarget, linkedFile = target, f
					res.probe("world.hardlinked_source")
				}
			default:
				os.Chmod(filepath.Join(dir, f), []os.FileMode{0o600, 0o664, 0o640, 0o755}[ft.Intn(4)])
				res.probe("world.source_with_other_permissions")
			}
		}
	}
	plan := drawPlan(ts.Fork("plan"))
	if withFlags && ts.Fork("stall").Chance(1, 4) {
		// a slow disk under the user's files: every write to them is held for a while. A run that ends
		// (successfully or not) must have finished its rewrites: nothing half-written stays behind.
		plan.Faults = append(plan.Faults, Fault{Kind: "stall", Op: -1, K: 150}, Fault{Kind: "exit-delay", K: 40})
		res.probe("fault.slow_writes_to_user_files")
	}
	if outcome == "read-fault" {
		var srcs []string
		for _, k := range sortedKeysStr(files) {
			if strings.HasPrefix(k, "src/example.com/w/p/") && strings.HasSuffix(k, ".go") {
				srcs = append(srcs, strings.TrimPrefix(k, "src/example.com/w/"))
			}
		}
		f := Fault{Kind: "read-err", Path: srcs[mt.Intn(len(srcs))], Nth: mt.Intn(3), Errno: []string{"EIO", "EACCES"}[mt.Intn(2)]}
		plan.Faults = []Fault{f}
		res.Sample["fault"] = fmt.Sprintf("read-err on %s open #%d", f.Path, f.Nth)
	}
	// pre-existing generated files (also in packages that will not be processed)
	if mt.Bool() {
		r := runGoderive(ctx.bins.inst, root, append(append([]string{}, flags[:0]...), "./..."), &Plan{MapMode: "identity"}, 0, runEnv...)
		res.count(r)
		if outcome == "io-fault" && mt.Chance(1, 3) {
			// the "no calls left" path: remove every call, keep the generated file
			w.Calls, w.QCalls = nil, nil
			files = w.Render()
			writeWorld(dir, files)
			outcome = "io-fault-remove"
		}
	}
	if outcome == "io-fault" || outcome == "io-fault-remove" {
		// discovery run on a copy to learn the operations, then place the fault inside them
		disc := dir + ".disc"
		os.RemoveAll(disc)
		copyTree(dir, disc, nil)
		dr := runGoderive(ctx.bins.inst, disc, append(append([]string{}, flags...), args...), plan, 0)
		res.count(dr)
		os.RemoveAll(disc)
		if len(dr.Ops) > 0 {
			o := dr.Ops[mt.Intn(len(dr.Ops))]
			f := Fault{Kind: "err", Op: o.Idx, Errno: []string{"EIO", "EACCES", "ENOSPC", "EROFS"}[mt.Intn(4)]}
			if o.Kind == "write" && mt.Bool() {
				f = Fault{Kind: "short-write", Op: o.Idx, K: mt.Intn(o.N + 1), Errno: "ENOSPC"}
			}
			plan.Faults = []Fault{f}
			res.Sample["fault"] = fmt.Sprintf("%s on %s (op %d)", f.Kind, o.Kind, o.Idx)
		}
	}
	before := snapshot(dir)
	orig := map[string][]byte{}
	for _, e := range before {
		if strings.HasSuffix(e.Path, ".go") {
			b, _ := os.ReadFile(filepath.Join(dir, e.Path))
			orig[e.Path] = b
		}
	}
	r := runGoderive(ctx.bins.inst, root, append(append([]string{}, flags...), args...), plan, 0, runEnv...)
	res.count(r)
	if m := noCrash(r); m != "" {
		res.SawPanic = true
	}
	after := snapshot(dir)
	for _, l := range strings.Split(r.Trace, "\n") {
		if strings.HasPrefix(l, "fault ") {
			res.fault(strings.Fields(l)[1])
		}
	}
	res.Sample["files"] = userSources(files)
	res.Sample["flags"] = flags
	res.Sample["args"] = args
	res.Sample["outcome"] = outcome
	res.Sample["collisions"] = did
	res.Sample["exit"] = r.Exit
	res.Sample["stderr"] = firstLines(r.Stderr, 4)
	res.Sample["plan"] = plan
	res.Hash = worldHash(files, strings.Join(flags, " "), strings.Join(args, " "), outcome, fmt.Sprint(plan.Faults))
	res.probe("outcome." + outcome + fmt.Sprintf(".exit%d", r.Exit))
	facts := map[string]string{"stderr": r.Stderr, "outcome": outcome, "flags": strings.Join(flags, " "), "sources": joinFiles(userSources(files))}

	isDerivedOfProcessed := func(path string) bool {
		return filepath.Base(path) == "derived.gen.go" && processed[filepath.ToSlash(filepath.Dir(path))]
	}
	if !withFlags {
		res.Nontrivial = outcome != "success" || len(before) > len(files)
		d := diffSnap(before, after, isDerivedOfProcessed)
		if len(d) > 0 {
			res.V = &genViolation{Clause: "foreign-file-touched", Detail: fmt.Sprintf("outcome %s (exit %d), args %v: %s", outcome, r.Exit, args, strings.Join(d, "; ")), Facts: facts}
		}
		return res
	}
	// with flags: user files
	rewritten, changedIdents := 0, 0
	d := diffSnap(before, after, func(p string) bool {
		return isDerivedOfProcessed(p) || (strings.HasSuffix(p, ".go") && strings.HasPrefix(p, "p/")) || (linkTarget != "" && p == linkTarget)
	})
	if len(d) > 0 {
		res.V = &genViolation{Clause: "foreign-file-touched", Detail: fmt.Sprintf("flags %v (exit %d): %s", flags, r.Exit, strings.Join(d, "; ")), Facts: facts}
		return res
	}
	// the kind and permission bits of every user file are what they were
	modeBefore := map[string]string{}
	for _, e := range before {
		modeBefore[e.Path] = e.Mode
	}
	for _, e := range after {
		if m, ok := modeBefore[e.Path]; ok && m != e.Mode && strings.HasSuffix(e.Path, ".go") && filepath.Base(e.Path) != "derived.gen.go" {
			facts["file"] = e.Path
			res.V = &genViolation{Clause: "user-file-mode-changed", Detail: fmt.Sprintf("flags %v: %s was %s and is %s after the run", flags, e.Path, m, e.Mode), Facts: facts}
			return res
		}
	}
	if linkTarget != "" {
		a, errA := os.ReadFile(filepath.Join(dir, linkedFile))
		b, errB := os.ReadFile(filepath.Join(dir, linkTarget))
		if errA != nil || errB != nil || !bytes.Equal(a, b) {
			facts["file"] = linkedFile
			res.V = &genViolation{Clause: "link-broken", Detail: fmt.Sprintf("flags %v: %s and %s were one file before the run and differ after it (%v %v)", flags, linkedFile, linkTarget, errA, errB), Facts: facts}
			return res
		}
	}
	for _, path := range sortedKeysBytes(orig) {
		if !strings.HasPrefix(path, "p/") || filepath.Base(path) == "derived.gen.go" {
			continue
		}
		now, err := os.ReadFile(filepath.Join(dir, path))
		if err != nil {
			res.V = &genViolation{Clause: "user-file-deleted", Detail: path + " no longer exists", Facts: facts}
			return res
		}
		want, renamed, nchanged, problem := expectedRewrite(orig[path], now)
		changedIdents += nchanged
		if problem != "" {
			facts["file"] = path
			res.V = &genViolation{Clause: "rewrite-malformed", Detail: fmt.Sprintf("%s after flags %v: %s", path, flags, problem), Facts: facts}
			return res
		}
		if want == nil {
			continue
		}
		if !renamed {
			if !bytes.Equal(now, orig[path]) {
				facts["file"] = path
				res.V = &genViolation{Clause: "unrenamed-file-rewritten", Detail: fmt.Sprintf("%s contains no renamed call but was modified under flags %v: %s", path, flags, firstDiff(string(orig[path]), string(now))), Facts: facts}
				return res
			}
			continue
		}
		rewritten++
		if !bytes.Equal(now, want) {
			facts["file"] = path
			facts["diff"] = firstDiff(string(want), string(now))
			kind := "rewrite-differs"
			if bytes.HasPrefix(now, want) {
				kind = "rewrite-stale-tail"
			}
			res.V = &genViolation{Clause: kind, Detail: fmt.Sprintf("%s under flags %v is not gofmt(original with the renamed identifiers substituted): %s", path, flags, firstDiff(string(want), string(now))), Facts: facts}
			return res
		}
	}
	reported := strings.Count(r.Stderr, "changing function call name from ")
	// a run that fails later may have announced renames it never wrote, and one call can be renamed twice
	// (deriveSort -> deriveSort_ by -autoname in the first pass, deriveSort_ -> deriveSortNC by -dedup in the
	// second): fewer changed identifiers than announcements is legitimate, more is not
	if res.V == nil && changedIdents > reported {
		res.V = &genViolation{Clause: "renamed-more-than-reported", Detail: fmt.Sprintf("flags %v: %d call identifiers changed in the user files, goderive reported %d renames: %s", flags, changedIdents, reported, firstLines(r.Stderr, 4)), Facts: facts}
		return res
	}
	if rewritten > 0 {
		res.probe("rewrite.files_rewritten")
	}
	res.Nontrivial = rewritten > 0 || r.Exit != 0
	return res
}

func sortedKeysBytes(m map[string][]byte) []string {
	ks := make([]string, 0, len(m))
	for k := range m {
		ks = append(ks, k)
	}
	sort.Strings(ks)
	return ks
}
