package main

import (
	"encoding/json"
	"fmt"
	"os"
	"path/filepath"
	"regexp"
	"sort"
	"sync"
	"time"

	"verif/tape"
)

// genCtx is shared by all cases of one gensim check.
type genCtx struct {
	prop     string
	tier     string
	bins     *genBinaries
	kfs      []KnownFinding
	deadline time.Time // wall-clock budget of the batch: long per-case enumerations stop early (and say so) once it has passed
}

// known returns the listed (not fixed) finding that v is an instance of.
func (c *genCtx) known(v *genViolation) *KnownFinding {
	if v == nil {
		return nil
	}
	f := map[string]string{"clause": v.Clause, "detail": v.Detail}
	for _, k := range sortedKeysStr(v.Facts) {
		f[k] = v.Facts[k]
	}
	return matchKnown(c.kfs, c.prop, f)
}

// knownHit records that a case met a listed finding and went on.
func (r *genResult) knownHit(k *KnownFinding) {
	for _, id := range r.KnownHits {
		if id == k.ID {
			return
		}
	}
	r.KnownHits = append(r.KnownHits, k.ID)
}

// genViolation is a failed oracle clause.
type genViolation struct {
	Clause string
	Detail string
	Facts  map[string]string // for known-finding matching
}

// genResult is what one case reports.
type genResult struct {
	Idx        int
	V          *genViolation
	Execs      int    // simulated goderive executions
	Steps      int    // logical time: intercepted fs operations + map-range events
	Hash       string // identity of the explored case (world + plans + outcome), for distinct counting
	Nontrivial bool
	Sample     map[string]any // decoded case (for evidence samples / replay files)
	Probes     map[string]int
	Faults     map[string]int
	SawPanic   bool
	KnownHits  []string // ids of listed findings this case ran into (and continued past)
}

type genCaseFn func(ctx *genCtx, ts *tape.Set, dir string) *genResult

var genCases = map[string]genCaseFn{}

// genDirected runs the committed reproducer of a known finding through the
// property's own oracle.
var genDirected = map[string]func(ctx *genCtx, in *DirectedInput, dir string) *genViolation{}

func (r *genResult) probe(name string) {
	if r.Probes == nil {
		r.Probes = map[string]int{}
	}
	r.Probes[name]++
}

func (r *genResult) fault(name string) {
	if r.Faults == nil {
		r.Faults = map[string]int{}
	}
	r.Faults[name]++
}

func (r *genResult) count(g *genRun) {
	r.Execs++
	r.Steps += len(g.Ops) + g.MapSites
}

type genBudget struct {
	cases   int
	wall    time.Duration
	shrinkN int
	shrinkT time.Duration
}

// runGenCheck is the orchestrator of every gensim property.
func runGenCheck(o checkOpts, level string, quick, thorough genBudget, rule string, assumptions []string) int {
	ev := newEvidence(o.id, o.tier, o.seed, level)
	fn := genCases[o.id]
	ctx := &genCtx{prop: o.id, tier: o.tier, bins: buildGenBinaries(), kfs: loadKnownFindings()}
	defer cleanup()
	b := quick
	if o.tier == "thorough" {
		b = thorough
	}
	if v := os.Getenv("VERIF_RUNS"); v != "" {
		fmt.Sscan(v, &b.cases)
	}
	if v := os.Getenv("VERIF_MAXWALL"); v != "" {
		if d, err := time.ParseDuration(v); err == nil {
			b.wall = d
		}
	}
	ctx.deadline = time.Now().Add(b.wall)
	transparencyCheck(ctx)
	// listed findings: run each committed reproducer through the oracle
	directedHits := map[string]int{}
	type directedFailure struct {
		k *KnownFinding
		v *genViolation
	}
	var regressions []*directedFailure
	regressionInputs := 0
	if df := genDirected[o.id]; df != nil {
		for _, k := range ctx.kfs {
			if k.Property != o.id || k.Input == nil {
				continue
			}
			dir := filepath.Join(ctx.bins.scratch, "directed")
			os.RemoveAll(dir)
			os.MkdirAll(dir, 0o755)
			v := df(ctx, k.Input, dir)
			if k.Status == "fixed" {
				// the reproducer of a repaired defect stays as a regression input: a fixed entry
				// suppresses nothing, so a failure is an ordinary violation
				regressionInputs++
				if v != nil {
					kk := k
					regressions = append(regressions, &directedFailure{k: &kk, v: v})
				}
				continue
			}
			if v != nil {
				if kk := ctx.known(v); kk != nil && kk.ID == k.ID {
					directedHits[k.ID]++
				} else {
					harnessTrouble("the reproducer of known finding %s fails in another way than recorded: %s: %s", k.ID, v.Clause, v.Detail)
				}
			} else {
				fmt.Fprintf(os.Stderr, "note: the reproducer of known finding %s no longer fails (fixed?)\n", k.ID)
			}
		}
	}

	results := make([]*genResult, b.cases)
	var mu sync.Mutex
	next := 0
	if v := os.Getenv("VERIF_CASE"); v != "" {
		// development aid: run a single case index
		fmt.Sscan(v, &next)
		b.cases = next + 1
		results = make([]*genResult, b.cases)
	}
	firstFail := -1
	t0 := time.Now()
	var wg sync.WaitGroup
	for w := 0; w < o.jobs; w++ {
		wg.Add(1)
		go func(w int) {
			defer wg.Done()
			dir := filepath.Join(ctx.bins.scratch, fmt.Sprintf("w%d", w))
			for {
				mu.Lock()
				i := next
				next++
				stop := i >= b.cases || time.Since(t0) > b.wall || (firstFail >= 0 && i > firstFail && os.Getenv("VERIF_SURVEY") == "")
				mu.Unlock()
				if stop {
					return
				}
				os.RemoveAll(dir)
				os.MkdirAll(dir, 0o755)
				ts := tape.NewSet(tape.Mix(uint64(o.seed), tape.MixS(o.id), uint64(i)))
				ts.Index = i
				r := fn(ctx, ts, dir)
				r.Idx = i
				if r.V != nil {
					// keep the tape for shrinking / replay
					r.Sample["_tape"] = ts.Recorded()
				}
				mu.Lock()
				results[i] = r
				if r.V != nil && (firstFail < 0 || i < firstFail) {
					firstFail = i
				}
				mu.Unlock()
			}
		}(w)
	}
	wg.Wait()
	simWall := time.Since(t0).Seconds()

	// aggregate
	distinct := map[string]bool{}
	probes := map[string]int{}
	faults := map[string]int{}
	execs, steps, done, nontrivial, sawPanic := 0, 0, 0, 0, 0
	var samples []any
	var failing []*genResult
	knownHits := map[string]int{}
	for _, r := range results {
		if r == nil {
			continue
		}
		done++
		execs += r.Execs
		steps += r.Steps
		if r.SawPanic {
			sawPanic++
		}
		if r.Nontrivial {
			nontrivial++
			distinct[r.Hash] = true
		}
		for _, k := range sortedKeysInt(r.Probes) {
			probes[k] += r.Probes[k]
		}
		for _, k := range sortedKeysInt(r.Faults) {
			faults[k] += r.Faults[k]
		}
		if len(samples) < 3 && r.Nontrivial && r.V == nil {
			samples = append(samples, r.Sample)
		}
		for _, id := range r.KnownHits {
			knownHits[id]++
		}
		if r.V != nil {
			failing = append(failing, r)
		}
	}
	if len(samples) == 0 {
		for _, r := range results {
			if r != nil && len(samples) < 2 {
				samples = append(samples, r.Sample)
			}
		}
	}
	cov := ev.Coverage
	cov["evaluations"] = done
	cov["distinct_nontrivial"] = len(distinct)
	cov["nontrivial_cases"] = nontrivial
	cov["rule"] = rule
	cov["samples"] = samples
	cov["goderive_executions"] = execs
	cov["sim_steps"] = steps
	cov["simulated_time"] = "no clock exists in goderive; logical time = intercepted file-system operations + controlled map-range events (sim_steps)"
	cov["runs_per_hour"] = int(float64(execs) / simWall * 3600)
	cov["cases_per_hour"] = int(float64(done) / simWall * 3600)
	cov["seeds"] = map[string]any{"base_seed": o.seed, "case_index_from": 0, "case_index_to": done, "seed_of_case": "Mix(VERIF_SEED, property, case index)"}
	cov["probes"] = probes
	cov["faults_fired"] = faults
	cov["saw_panic_cases"] = sawPanic
	cov["components"] = map[string]any{
		"real": []string{"goderive built from the working tree: main.go, derive/, plugin/*, x/tools go/loader, go/types, go/build and its `go list` children, run as a sub-process per execution on a real (tmpfs) directory tree"},
		"stub": []string{"Go map iteration order in goderive's own packages (verifsim.Keys: plan-chosen permutation)", "order of loader.InitialPackages (verifsim.PkgOrder)", "plugin registration order (verifsim.Shuffle)", "os.Create/OpenFile/Write/Close/Remove... in goderive's own packages (verifsim fs shim: planned errors, short writes, crashes)"},
	}
	cov["instrumentation"] = map[string]any{"map_ranges": ctx.bins.rep.MapRanges, "fs_calls": ctx.bins.rep.FSCalls, "pkg_order_sites": ctx.bins.rep.PkgOrder, "plugin_order_sites": ctx.bins.rep.PluginOrder}
	cov["build_s"] = ctx.bins.buildS
	cov["sim_wall_s"] = simWall
	cov["workers"] = o.jobs
	ev.Assumptions = append([]string{
		"the source rewriter (internal/geninst) preserves goderive's behaviour: checked on every run by the transparency test (instrumented binary under the identity plan vs the plain binary)",
		"sampling, not enumeration, of the program dimension: a clean batch is evidence, not proof",
	}, assumptions...)

	printKnown := func(extra map[string]int) {
		for _, k := range ctx.kfs {
			if k.Property == o.id && k.Status == "known" && (knownHits[k.ID] > 0 || extra[k.ID] > 0) {
				fmt.Printf("KNOWN-FINDING: property=%s %s\n", o.id, k.Text)
			}
		}
	}
	cov["known_findings_matched"] = knownHits
	cov["known_findings_reproduced_by_directed_input"] = directedHits
	cov["regression_inputs_of_fixed_findings_run"] = regressionInputs
	if len(regressions) > 0 {
		printKnown(directedHits)
		for _, regression := range regressions {
			rf := &GenReplayFile{Property: o.id, Violation: regression.v.Clause, Detail: "the committed reproducer of the repaired defect " + regression.k.ID + " fails again: " + regression.v.Detail,
				Seed: o.seed, Run: -1, Directed: regression.k.Input, Decoded: map[string]any{"finding": regression.k.ID, "text": regression.k.Text}, Engine: "gensim", RepoRev: repoRev()}
			dirR := replaysDir()
			os.MkdirAll(dirR, 0o755)
			path := filepath.Join(dirR, fmt.Sprintf("%s-%d-regression-%s.json", o.id, o.seed, regression.k.ID))
			bs, _ := json.MarshalIndent(rf, "", " ")
			os.WriteFile(path, bs, 0o644)
			ev.Violations++
			fmt.Printf("violation: regression input %s clause=%s: %s\n", regression.k.ID, regression.v.Clause, regression.v.Detail)
			fmt.Printf("VIOLATION property=%s replay=%s\n", o.id, path)
		}
		ev.write()
		return 1
	}
	if len(failing) == 0 {
		printKnown(directedHits)
		ev.write()
		fmt.Printf("%s: held on %d cases (%d goderive executions, %d distinct non-trivial) in %.1fs (+%.1fs build)\n", o.id, done, execs, len(distinct), simWall, ctx.bins.buildS)
		return 0
	}
	sort.Slice(failing, func(i, j int) bool { return failing[i].Idx < failing[j].Idx })
	if os.Getenv("VERIF_SURVEY") != "" {
		// development aid: list every failing case, no shrinking, no verdict
		for _, f := range failing {
			d := f.V.Detail
			if len(d) > 300 {
				d = d[:300]
			}
			fmt.Printf("SURVEY case %d clause=%s: %s\n", f.Idx, f.V.Clause, d)
			if os.Getenv("VERIF_SURVEY") == "2" {
				js, _ := json.MarshalIndent(f.Sample["files"], "", " ")
				fmt.Println(string(js))
			}
		}
		fmt.Printf("SURVEY: %d of %d cases failed\n", len(failing), done)
		return 2
	}
	exit := 0
	matched := map[string]int{}
	for _, f := range failing {
		if k := ctx.known(f.V); k != nil {
			matched[k.ID]++
			knownHits[k.ID]++
			continue
		}
		if exit != 0 {
			continue
		}
		path := genReport(ctx, o, f, b)
		ev.Violations++
		fmt.Printf("violation: case %d clause=%s: %s\n", f.Idx, f.V.Clause, f.V.Detail)
		fmt.Printf("VIOLATION property=%s replay=%s\n", o.id, path)
		exit = 1
	}
	printKnown(directedHits)
	cov["known_findings_matched"] = knownHits
	ev.write()
	if exit == 0 {
		fmt.Printf("%s: held on %d cases apart from known findings (%d goderive executions) in %.1fs\n", o.id, done, execs, simWall)
	}
	return exit
}

type GenReplayFile struct {
	Property     string              `json:"property"`
	Violation    string              `json:"violation"`
	Detail       string              `json:"detail"`
	Seed         int64               `json:"seed"`
	Run          int                 `json:"run"`
	Tape         map[string][]uint32 `json:"tape"`
	TapeOriginal map[string][]uint32 `json:"tape_original"`
	Decoded      map[string]any      `json:"decoded"`
	Engine       string              `json:"engine"`
	RepoRev      string              `json:"repo_rev"`
	ShrinkEvals  int                 `json:"shrink_evals"`
	Directed     *DirectedInput      `json:"directed_input,omitempty"`     // set instead of a tape when a committed regression input fails
	Flaky        string              `json:"schedule_dependent,omitempty"` // set when the tape did not fail again at once (nondeterminism inside the simulated goderive)
}

// genReport minimises the failing tape (same clause must persist), confirms
// the minimised tape in a fresh directory and writes the replay file.
func genReport(ctx *genCtx, o checkOpts, f *genResult, b genBudget) string {
	fn := genCases[o.id]
	ctx.deadline = time.Time{} // replaying and shrinking are not cut short by the batch budget: a tape is one execution
	orig := tape.Rec(f.Sample["_tape"].(map[string][]uint32))
	dir := filepath.Join(ctx.bins.scratch, "shrink")
	runRec := func(r tape.Rec) *genResult {
		os.RemoveAll(dir)
		os.MkdirAll(dir, 0o755)
		return fn(ctx, tape.ReplaySet(0, r), dir)
	}
	fails := func(r tape.Rec) bool {
		res := runRec(r)
		if res.V == nil || res.V.Clause != f.V.Clause {
			return false
		}
		// never shrink an unknown violation into a known finding
		return ctx.known(res.V) == nil
	}
	min, evals := orig, 0
	reproduced, tries := 0, 0
	for tries < 6 && reproduced == 0 {
		tries++
		if fails(orig) {
			reproduced++
		}
	}
	flaky := ""
	switch {
	case reproduced > 0 && tries == 1:
		min, evals = tape.Shrink(orig, fails, b.shrinkN, b.shrinkT)
	case reproduced > 0:
		// The same tape and the same binaries gave another verdict at first: the simulated goderive has a source
		// of nondeterminism the seams do not own (goroutines of its own). The violation was observed on a real
		// execution and again on a repetition, so it is reported; it is not minimised (shrinking needs a stable
		// predicate) and the replay file says how often it reproduces.
		flaky = fmt.Sprintf("the violation is schedule dependent inside goderive: the recorded tape failed the same way in 1 of %d repetitions after the original failure; replay repeats the tape up to 10 times", tries)
	default:
		// same tape, same binaries, never the same verdict again: nondeterminism outside the seams
		harnessTrouble("NON-REPRODUCIBLE: case %d of %s failed clause %s (%s) but its tape does not fail again in %d repetitions", f.Idx, o.id, f.V.Clause, f.V.Detail, tries)
	}
	final := runRec(min)
	detail := f.V.Detail
	decoded := f.Sample
	rec := orig
	if final.V != nil && final.V.Clause == f.V.Clause {
		detail, decoded, rec = final.V.Detail, final.Sample, min
	}
	delete(decoded, "_tape")
	rf := &GenReplayFile{Property: o.id, Violation: f.V.Clause, Detail: detail, Seed: o.seed, Run: f.Idx, Tape: rec, TapeOriginal: orig, Decoded: decoded, Engine: "gensim", RepoRev: repoRev(), ShrinkEvals: evals, Flaky: flaky}
	dirR := replaysDir()
	os.MkdirAll(dirR, 0o755)
	path := filepath.Join(dirR, fmt.Sprintf("%s-%d-%d.json", o.id, o.seed, f.Idx))
	bs, _ := json.MarshalIndent(rf, "", " ")
	os.WriteFile(path, bs, 0o644)
	return path
}

func genReplay(prop, path string) int {
	b, err := os.ReadFile(path)
	if err != nil {
		fmt.Fprintln(os.Stderr, err)
		return 2
	}
	var rf GenReplayFile
	if err := json.Unmarshal(b, &rf); err != nil {
		fmt.Fprintln(os.Stderr, err)
		return 2
	}
	fn, ok := genCases[prop]
	if !ok {
		fmt.Fprintln(os.Stderr, "no gensim case for", prop)
		return 2
	}
	ctx := &genCtx{prop: prop, tier: "quick", bins: buildGenBinaries(), kfs: loadKnownFindings()}
	defer cleanup()
	dir := filepath.Join(ctx.bins.scratch, "replay")
	os.MkdirAll(dir, 0o755)
	if rf.Directed != nil {
		df := genDirected[prop]
		if df == nil {
			fmt.Fprintln(os.Stderr, "no directed oracle for", prop)
			return 2
		}
		v := df(ctx, rf.Directed, dir)
		if v == nil {
			fmt.Println("REPLAY: property held on this input")
			return 0
		}
		fmt.Printf("REPLAY: clause=%s detail=%s\n", v.Clause, v.Detail)
		fmt.Printf("VIOLATION property=%s replay=%s\n", prop, path)
		return 1
	}
	res := fn(ctx, tape.ReplaySet(0, rf.Tape), dir)
	for rep := 1; rep < 10 && res.V == nil && rf.Flaky != ""; rep++ {
		// recorded as schedule dependent inside goderive: repeat the same tape
		os.RemoveAll(dir)
		os.MkdirAll(dir, 0o755)
		res = fn(ctx, tape.ReplaySet(0, rf.Tape), dir)
	}
	js, _ := json.MarshalIndent(res.Sample, "", " ")
	fmt.Println(string(js))
	if res.V == nil {
		fmt.Println("REPLAY: property held on this tape")
		return 0
	}
	fmt.Printf("REPLAY: clause=%s detail=%s\n", res.V.Clause, res.V.Detail)
	fmt.Printf("VIOLATION property=%s replay=%s\n", prop, path)
	return 1
}

func init() { replayers["gensim"] = genReplay }

// transparencyCheck: the instrumented binary under the identity plan must
// behave exactly like the plain binary (exit status, stderr, output bytes)
// on a fixed set of small worlds. A mismatch is harness trouble, not a
// violation. (The map order of the plain binary is the runtime's, so the
// worlds here are ones whose output cannot depend on it.)
var hexAddr = regexp.MustCompile(`0x[0-9a-f]{5,}`)

func transparencyCheck(ctx *genCtx) {
	worlds := []map[string]string{
		{"go.mod": "module example.com/w\n\ngo 1.24\n", "p/a.go": "package p\n\ntype S struct {\n\tA int\n\tB []string\n\tC map[string]*S\n}\n\nfunc f(a, b *S) bool { return deriveEqual(a, b) && deriveCompare(a, b) == 0 && deriveHash(a) == deriveHash(b) }\n"},
		{"go.mod": "module example.com/w\n\ngo 1.24\n", "p/a.go": "package p\n\nfunc f(m map[string]int) []string { return deriveSort(deriveKeys(m)) }\n"},
		{"go.mod": "module example.com/w\n\ngo 1.24\n", "p/a.go": "package p\n\nfunc f(c chan int) bool { return deriveEqual(c, c) }\n"},
	}
	n := 0
	for i, files := range worlds {
		var outs [2]string
		var exits [2]int
		var errs [2]string
		for k, bin := range []string{ctx.bins.plain, ctx.bins.inst} {
			dir := filepath.Join(ctx.bins.scratch, fmt.Sprintf("transp%d_%d", i, k))
			writeWorld(dir, files)
			var plan *Plan
			if k == 1 {
				plan = &Plan{MapMode: "identity"}
			}
			r := runGoderive(bin, filepath.Join(dir, "p"), []string{"."}, plan, 0)
			exits[k], errs[k] = r.Exit, r.Stderr
			outs[k] = derivedFiles(dir)["p/derived.gen.go"]
			os.RemoveAll(dir)
		}
		// messages may print addresses (%#v of a go/types value): not part of the behaviour
		errs[0], errs[1] = hexAddr.ReplaceAllString(errs[0], "0xADDR"), hexAddr.ReplaceAllString(errs[1], "0xADDR")
		if exits[0] != exits[1] || outs[0] != outs[1] || errs[0] != errs[1] {
			// before blaming the instrumentation: is the plain binary deterministic by itself?
			distinct := map[string]bool{outs[0]: true}
			for rep := 0; rep < 6; rep++ {
				dir := filepath.Join(ctx.bins.scratch, fmt.Sprintf("transp%d_r%d", i, rep))
				writeWorld(dir, files)
				runGoderive(ctx.bins.plain, filepath.Join(dir, "p"), []string{"."}, nil, 0)
				distinct[derivedFiles(dir)["p/derived.gen.go"]] = true
				os.RemoveAll(dir)
			}
			if len(distinct) > 1 {
				// the uninstrumented goderive writes different bytes for the same sources on repeated runs:
				// that is C08's subject; the other properties cannot be judged on such a tree either
				if ctx.prop == "C08" {
					path := filepath.Join(replaysDir(), fmt.Sprintf("C08-%d-plain-binary.json", curEvidence.Seed))
					os.MkdirAll(replaysDir(), 0o755)
					rf := &GenReplayFile{Property: "C08", Violation: "bytes-differ", Detail: fmt.Sprintf("the uninstrumented goderive wrote %d different derived.gen.go files in 7 runs over the same sources", len(distinct)),
						Seed: curEvidence.Seed, Run: -1, Directed: &DirectedInput{Versions: []map[string]string{files}}, Engine: "gensim", RepoRev: repoRev(), Flaky: "real map iteration order of the plain binary: replay repeats the run"}
					bs, _ := json.MarshalIndent(rf, "", " ")
					os.WriteFile(path, bs, 0o644)
					curEvidence.Violations++
					curEvidence.write()
					fmt.Printf("violation: %s\n", rf.Detail)
					fmt.Printf("VIOLATION property=C08 replay=%s\n", path)
					cleanup()
					os.Exit(1)
				}
				harnessTrouble("the uninstrumented goderive is not deterministic on world %d (%d different outputs in 7 runs): see C08; this check cannot be judged on such a tree", i, len(distinct))
			}
			harnessTrouble("transparency test failed on world %d: plain exit=%d inst exit=%d; outputs equal=%v; stderr plain=%q inst=%q", i, exits[0], exits[1], outs[0] == outs[1], errs[0], errs[1])
		}
		n++
	}
	curEvidence.Coverage["transparency_checks"] = n
}
