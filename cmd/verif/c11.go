package main

import (
	"fmt"
	"go/ast"
	"go/types"
	"os"
	"path/filepath"
	"sort"
	"strings"
	"time"

	"verif/internal/world"
	"verif/tape"
)

func init() {
	checks["C11"] = func(o checkOpts) int {
		return runGenCheck(o, "exploration",
			genBudget{cases: 500, wall: 90 * time.Second, shrinkN: 40, shrinkT: 60 * time.Second},
			genBudget{cases: 9000, wall: 25 * time.Minute, shrinkN: 200, shrinkT: 8 * time.Minute},
			"one case = one module with derive calls whose names and argument types are drawn so that conflicts (one name, two argument lists) and duplicates (two names, one plugin+argument list) occur: profile A assigns 2-4 calls to a 3-name x 3-type x 2-plugin alphabet (the small space the statement quantifies over, sampled through the tape), profile B injects clashes into random larger modules with hand-written called functions in the fresh-name path; each module is executed under all four -autoname/-dedup combinations and two map-iteration plans; clauses: exit status as the statement prescribes from an independent clash predicate, same verdict under both plans, and after a successful flagged run: package type-checks, every call site's callee has parameter types identical to the argument types, per plugin no two generated functions share a parameter list after -dedup; distinct = (world) hash; non-trivial = the module has at least one clash",
			[]string{"mixed clashes under a single flag are not constrained (the statement does not say)"})
	}
	genCases["C11"] = c11Case
}

// smallAlphabetWorld: k calls over names {P, Pa, Pb} x types {T0,T1,T2} x plugins {equal, compare}.
func smallAlphabetWorld(t *tape.Tape) *world.World {
	w := &world.World{NFiles: 1 + t.Intn(2)}
	for i := 0; i < 3; i++ {
		w.Decls = append(w.Decls, &world.Decl{Name: fmt.Sprintf("T%d", i), Struct: true, Fields: []world.Field{{Name: "A", Ty: world.Basic([]string{"int", "string", "bool"}[i])}}, File: t.Intn(w.NFiles)})
	}
	k := 2 + t.Intn(3)
	for i := 0; i < k; i++ {
		plugin := []string{"equal", "compare"}[t.Intn(2)]
		T := world.Ptr(world.Named("", fmt.Sprintf("T%d", t.Intn(3))))
		c := &world.Call{Plugin: plugin, Suffix: []string{"", "a", "b"}[t.Intn(3)], NRes: 1, ID: i + 1, File: t.Intn(w.NFiles),
			Args: []world.Arg{{Param: "a", Ty: T}, {Param: "b", Ty: T}}}
		w.Calls = append(w.Calls, c)
	}
	w.Unfmt = make([]bool, w.NFiles)
	w.LineDir = make([]string, w.NFiles)
	return w
}

// callSiteProblems type-checks the world and verifies exactness of every
// call site and uniqueness of generated parameter lists per plugin.
func callSiteProblems(worldDir string, w *world.World, checkDedup bool) []string {
	pkgs, errs := typecheckWorld(worldDir, "./p")
	var probs []string
	seen := map[string]bool{}
	add := func(s string) {
		if !seen[s] {
			seen[s] = true
			probs = append(probs, s)
		}
	}
	for _, e := range errs {
		add("type error: " + e)
	}
	for _, p := range pkgs {
		if len(p.Errors) > 0 || p.Types == nil {
			continue
		}
		for _, f := range p.Files {
			if filepath.Base(p.Fset.Position(f.Pos()).Filename) == "derived.gen.go" {
				continue
			}
			ast.Inspect(f, func(n ast.Node) bool {
				c, ok := n.(*ast.CallExpr)
				if !ok {
					return true
				}
				id, ok := c.Fun.(*ast.Ident)
				if !ok {
					return true
				}
				fn, ok := p.Info.Uses[id].(*types.Func)
				if !ok || filepath.Base(p.Fset.Position(fn.Pos()).Filename) != "derived.gen.go" {
					return true
				}
				sig := fn.Type().(*types.Signature)
				if sig.Params().Len() != len(c.Args) {
					return true // curried / other forms: judged by the type checker only
				}
				for i, a := range c.Args {
					at := p.Info.TypeOf(a)
					if at != nil && !types.Identical(at, sig.Params().At(i).Type()) {
						add(fmt.Sprintf("call %s at %s passes %s where the generated function takes %s", id.Name, strings.TrimPrefix(p.Fset.Position(c.Pos()).String(), worldDir+"/"), at, sig.Params().At(i).Type()))
					}
				}
				return true
			})
		}
		if checkDedup && !strings.HasSuffix(p.Name, "_test") {
			// per plugin (longest matching prefix), generated functions have pairwise different parameter lists
			var prefixes []string
			plug := map[string]string{}
			for _, pl := range world.AllPlugins {
				px := w.PrefixOf(pl)
				prefixes = append(prefixes, px)
				plug[px] = pl
			}
			sort.Slice(prefixes, func(i, j int) bool { return len(prefixes[i]) > len(prefixes[j]) })
			byKey := map[string]string{}
			scope := p.Types.Scope()
			for _, name := range scope.Names() {
				fn, ok := scope.Lookup(name).(*types.Func)
				if !ok || filepath.Base(p.Fset.Position(fn.Pos()).Filename) != "derived.gen.go" {
					continue
				}
				pl := ""
				for _, px := range prefixes {
					if strings.HasPrefix(name, px) {
						pl = plug[px]
						break
					}
				}
				key := pl + "|" + fn.Type().(*types.Signature).Params().String()
				if other, dup := byKey[key]; dup && other != name {
					add(fmt.Sprintf("after -dedup plugin %s still has two functions for %s: %s and %s", pl, fn.Type().(*types.Signature).Params(), other, name))
				}
				byKey[key] = name
			}
		}
	}
	sort.Strings(probs)
	if len(probs) > 5 {
		probs = probs[:5]
	}
	return probs
}

func c11Case(ctx *genCtx, ts *tape.Set, dir string) *genResult {
	mt := ts.Fork("mode")
	var w *world.World
	var did []string
	profile := "A"
	if mt.Intn(3) == 0 {
		profile = "B"
		prof := drawProfile(ts.Fork("profile"), ctx.tier)
		prof.Nested, prof.Q, prof.Curried, prof.TestFile = false, false, false, mt.Bool()
		prof.NamedComposite = false
		prof.Concurrency = false
		prof.UserFuncs = true
		prof.Clusters = true
		if prof.MaxCalls < 3 {
			prof.MaxCalls = 3
		}
		w = world.Generate(ts.Fork("world"), prof)
	} else {
		w = smallAlphabetWorld(ts.Fork("world"))
	}
	base := filepath.Join(dir, "base")
	res := &genResult{Sample: map[string]any{}}
	// one case in three runs under a customised prefix map: clash detection,
	// renaming and the reserved names must follow the prefixes in force
	var pflags []string
	if mt.Intn(3) == 0 {
		w.DrawPrefixes(ts.Fork("prefix"))
		pflags = w.PrefixFlags()
		if len(pflags) > 0 {
			res.probe("world.prefix_flags")
		}
	}
	// prior state: derived.gen.go generated for an earlier, clash-free version
	// of the sources (the user adds the clashing call to a generated package)
	prior := mt.Bool()
	var earlier map[string]string
	if prior {
		var keep []*world.Call
		if profile == "A" {
			keep = w.Calls
			w.Calls = w.Calls[:(len(w.Calls)+1)/2]
		}
		earlier = w.Render()
		writeWorld(base, earlier)
		r := runGoderive(ctx.bins.inst, base, append(append([]string{}, pflags...), "./p"), &Plan{MapMode: "identity"}, 0)
		res.count(r)
		if r.Exit == 0 {
			res.probe("prior_derived_file_present")
		}
		if profile == "A" {
			w.Calls = keep
		}
	}
	if profile == "B" {
		did = world.MakeCollisions(w, ts.Fork("collide"), mt.Intn(3) > 0, mt.Intn(3) > 0)
	}
	if mt.Intn(6) == 0 {
		// conflicts that involve calls typable only in the second pass: on the outer calls, or on the inner
		// calls (then a rename of the first pass decides the argument type of a call of the second)
		pl := []string{"sort", "unique"}[mt.Intn(2)]
		if mt.Bool() {
			did = append(did, world.AddNestedConflict(w, 7000, pl))
		} else {
			did = append(did, world.AddInnerConflict(w, 7000, pl))
		}
		res.probe("world.nested_conflict")
	}
	if gh := ts.Fork("genheader"); gh.Intn(5) == 0 && len(w.LineDir) >= w.NFiles {
		w.LineDir[gh.Intn(w.NFiles)] = "// Code generated by mockgen. DO NOT EDIT.\n"
		res.probe("world.file_with_generated_header")
	}
	conflicts, dups := w.Clashes()
	if len(conflicts) > 0 && mt.Bool() {
		// a hand-written, called function whose name is the first fresh name -autoname would try,
		// declared and called only in the last file
		name := conflicts[mt.Intn(len(conflicts))]
		base := name
		for _, c := range w.Calls {
			if w.FuncName(c) == name {
				base = w.PrefixOf(c.Plugin)
			}
		}
		cand := base + "_"
		if mt.Intn(3) == 0 {
			cand = base + "_1"
		}
		have := false
		for _, u := range w.UserFuncs {
			if u.Pkg == "" && u.Name == cand {
				have = true // the world already holds a hand-written function of that name
			}
		}
		if !have {
			if w.NFiles < 2 {
				w.NFiles = 2
				w.Unfmt = append(w.Unfmt, false)
				w.LineDir = append(w.LineDir, "")
			}
			text := fmt.Sprintf("func %s(a, b complex64) complex64 { return a - b }\n\nvar _ = %s(1, 2)\n", cand, cand)
			if mt.Bool() {
				text = fmt.Sprintf("var %s = func(a, b complex64) complex64 { return a - b }\n\nvar _ = %s(1, 2)\n", cand, cand)
			}
			w.UserFuncs = append(w.UserFuncs, world.UserFunc{Name: cand, File: w.NFiles - 1, Text: text})
		}
		res.probe("world.reserved_fresh_name_candidate")
	}
	files := w.Render()
	writeWorld(base, files)
	if !prior {
		// (with a prior derived.gen.go in place the check would see its functions; the world of a prior case was rendered from the same generator)
		if probs := userSourceProblems(base, w, "./p"); len(probs) > 0 {
			res.probe("world.invalid_discarded")
			res.Sample = map[string]any{"files": userSources(files), "invalid_world": probs}
			return res
		}
	}
	res.Sample = map[string]any{"files": userSources(files), "profile": profile, "conflicts": conflicts, "duplicates": dups, "injected": did, "earlier_version_generated_first": prior, "prefix_flags": pflags}
	if prior {
		res.Sample["earlier_files"] = userSources(earlier)
	}
	res.Hash = worldHash(files)
	res.Nontrivial = len(conflicts)+len(dups) > 0
	if len(conflicts) > 0 {
		res.probe("world.has_conflict")
	}
	if len(dups) > 0 {
		res.probe("world.has_duplicate")
	}
	if len(conflicts) > 0 && len(dups) > 0 {
		res.probe("world.has_both")
	}
	pt := ts.Fork("plan")
	plans := []*Plan{{MapMode: "identity"}, drawPlan(pt)}
	if plans[1].MapMode == "identity" {
		plans[1].MapMode = "reverse"
	}
	// the verdict on p is the verdict of the run, also when clean packages are processed in the same run, in any order
	pkgArgs := []string{"./p"}
	if w.HasExt && ts.Fork("pkgargs").Bool() {
		pkgArgs = []string{"./p", "./ext", "./other/ext", "./msg-go"}
		plans[0].PkgOrder, plans[1].PkgOrder = uint64(1+pt.Intn(1<<16)), uint64(1+pt.Intn(1<<16))
		res.probe("variant.clean_packages_in_the_same_run")
	}
	combos := [][]string{nil, {"-autoname"}, {"-dedup"}, {"-autoname", "-dedup"}}
	var verdicts []string
	for ci, flags := range combos {
		exits := make([]int, len(plans))
		for pi, plan := range plans {
			vd := filepath.Join(dir, fmt.Sprintf("c%d_%d", ci, pi))
			copyTree(base, vd, nil)
			r := runGoderive(ctx.bins.inst, vd, append(append(append([]string{}, pflags...), flags...), pkgArgs...), plan, 0)
			res.count(r)
			exits[pi] = r.Exit
			facts := map[string]string{"stderr": r.Stderr, "flags": strings.Join(append(append([]string{}, pflags...), flags...), " "), "sources": joinFiles(userSources(files)), "profile": profile}
			fail := func(clause, detail string) {
				if res.V == nil {
					res.V = &genViolation{Clause: clause, Detail: fmt.Sprintf("flags %v, conflicts %v, duplicates %v: %s", flags, conflicts, dups, detail), Facts: facts}
				}
			}
			if m := noCrash(r); m != "" {
				res.SawPanic = true
				fail("crash", m)
			}
			ok := r.Exit == 0
			hasC, hasD := len(conflicts) > 0, len(dups) > 0
			switch {
			case !hasC && !hasD:
				if !ok {
					fail("rejected-without-clash", "no clash but goderive fails: "+firstLines(r.Stderr, 2))
				}
			case ci == 0:
				if ok {
					fail("clash-accepted", "goderive without flags accepts a package with a clash")
				}
			case ci == 1 && hasD && !hasC:
				if ok {
					fail("autoname-accepts-duplicates", "-autoname alone accepts a package whose only clashes are duplicates")
				}
			case ci == 2 && hasC && !hasD:
				if ok {
					fail("dedup-accepts-conflicts", "-dedup alone accepts a package whose only clashes are conflicts")
				}
			case ci == 3:
				if !ok {
					fail("both-flags-reject", "with both flags goderive fails: "+firstLines(r.Stderr, 2))
				}
			}
			if ok && ci > 0 && res.V == nil {
				if probs := callSiteProblems(vd, w, ci >= 2); len(probs) > 0 {
					facts["problems"] = strings.Join(probs, "\n")
					fail("unsound-resolution", strings.Join(probs, " | "))
				}
				res.probe("flagged_run_succeeded")
			}
			if pi == len(plans)-1 || res.V != nil {
				// keep nothing
			}
			os.RemoveAll(vd)
			if res.V != nil {
				break
			}
		}
		if res.V == nil && exits[0] != exits[1] {
			res.V = &genViolation{Clause: "verdict-depends-on-map-order", Detail: fmt.Sprintf("flags %v: exit %d under the identity plan, %d under %s/%d", flags, exits[0], exits[1], plans[1].MapMode, plans[1].MapSeed),
				Facts: map[string]string{"flags": strings.Join(flags, " "), "sources": joinFiles(userSources(files))}}
		}
		verdicts = append(verdicts, fmt.Sprintf("%v:%d", flags, exits[0]))
		if res.V != nil {
			break
		}
	}
	res.Sample["verdicts"] = verdicts
	res.Sample["plan"] = plans[1]
	return res
}
