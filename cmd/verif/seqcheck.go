package main

import (
	"encoding/json"
	"fmt"
	"os"
	"path/filepath"
	"regexp"
	"sort"
	"strings"
	"sync"
	"time"

	"verif/internal/geninst"
	"verif/internal/seqgen"
	"verif/seqrt"
	"verif/tape"
)

// seqsim: C16 and C18. One package per seeded shape, one goderive run per
// package, one build, one driver that links every package that compiled and
// runs each package's enumeration of injection points / call histories.

var c16Sequential func(o checkOpts) int

// seqMapSites counts the range-over-map statements of generated code that were put behind the seam.
var seqMapSites int

type seqGen func(name string, t *tape.Tape) *seqgen.Shape

var seqGens = map[string]seqGen{"C16": seqgen.GenC16, "C18": seqgen.GenC18}

type seqViolation struct {
	Shape  *seqgen.Shape
	Index  int
	Clause string
	Fault  string
	Detail string
}

func seqShape(prop string, seed int64, i int) (*seqgen.Shape, *tape.Set) {
	ts := tape.NewSet(tape.Mix(uint64(seed), tape.MixS(prop), uint64(i)))
	return seqGens[prop](fmt.Sprintf("s%05d", i), ts.Fork("shape")), ts
}

// seqRunShapes generates, derives, builds and runs the given shape indices.
func seqRunShapes(prop string, seed int64, idxs []int, scratch, goderive string, jobs int) (results []*seqrt.Result, viols []seqViolation, shapes map[int]*seqgen.Shape, buildS float64) {
	t0 := time.Now()
	mod := filepath.Join(scratch, "m")
	os.RemoveAll(mod)
	os.MkdirAll(mod, 0o755)
	os.WriteFile(filepath.Join(mod, "go.mod"), []byte("module seqh\n\ngo 1.24\n\nrequire verif v0.0.0\n\nreplace verif => "+verifRoot+"\n"), 0o644)
	shapes = map[int]*seqgen.Shape{}
	byName := map[string]int{}
	for _, i := range idxs {
		sh, _ := seqShape(prop, seed, i)
		shapes[i] = sh
		byName[sh.Name] = i
		d := filepath.Join(mod, sh.Name)
		os.MkdirAll(d, 0o755)
		os.WriteFile(filepath.Join(d, "shape.go"), []byte(sh.Source), 0o644)
	}
	// goderive per package
	var mu sync.Mutex
	var wg sync.WaitGroup
	sem := make(chan struct{}, jobs)
	bad := map[int]bool{}
	for _, i := range idxs {
		wg.Add(1)
		go func(i int) {
			defer wg.Done()
			sem <- struct{}{}
			defer func() { <-sem }()
			r := runCmd(filepath.Join(mod, shapes[i].Name), goEnv(), genWatchdog, goderive, ".")
			if r.TimedOut {
				// a busy machine is not a hang: once more, alone, with a longer watchdog
				retryMu.Lock()
				r = runCmd(filepath.Join(mod, shapes[i].Name), goEnv(), 4*genWatchdog, goderive, ".")
				retryMu.Unlock()
			}
			if r.Exit != 0 || r.TimedOut {
				mu.Lock()
				bad[i] = true
				clause := "rejected"
				if r.TimedOut || (r.Exit != 1) || strings.Contains(r.Stderr, "panic:") {
					clause = "crash"
				}
				viols = append(viols, seqViolation{Shape: shapes[i], Index: i, Clause: clause, Detail: fmt.Sprintf("goderive exit %d: %s", r.Exit, firstLines(r.Stderr, 3))})
				mu.Unlock()
			}
		}(i)
	}
	wg.Wait()
	for i := range bad {
		os.RemoveAll(filepath.Join(mod, shapes[i].Name))
	}
	// build everything; packages that do not compile are violations and are left out of the driver
	pkgErr := regexp.MustCompile(`(?m)^# seqh/(s\d+)`)
	for round := 0; round < 3; round++ {
		r := runCmd(mod, goEnv(), 20*time.Minute, "go", "build", "./...")
		if r.Exit == 0 {
			break
		}
		ms := pkgErr.FindAllStringSubmatchIndex(r.Stderr, -1)
		if len(ms) == 0 {
			harnessTrouble("building the seqsim harness module failed without naming a package:\n%s", r.Stderr)
		}
		for k, m := range ms {
			name := r.Stderr[m[2]:m[3]]
			end := len(r.Stderr)
			if k+1 < len(ms) {
				end = ms[k+1][0]
			}
			i := byName[name]
			if !bad[i] {
				bad[i] = true
				viols = append(viols, seqViolation{Shape: shapes[i], Index: i, Clause: "does-not-compile", Detail: firstLines(strings.ReplaceAll(r.Stderr[m[1]:end], mod+"/", ""), 4)})
			}
			os.RemoveAll(filepath.Join(mod, name))
		}
	}
	// the generated code under test ranges over maps (Keys, Equal, DeepCopy of maps, and through them
	// Hash and Mem): that order belongs to the harness too
	if os.Getenv("VERIF_SEQ_NO_MAPSEAM") == "" {
		sites, err := geninst.RewriteMapRanges(mod, goEnv(), []string{"./..."}, "verif/seqrt", "seqrt", func(path string) bool {
			return filepath.Base(path) == "derived.gen.go"
		})
		if err != nil {
			harnessTrouble("rewriting the map ranges of the generated code: %v", err)
		}
		seqMapSites += len(sites)
	}
	// driver
	var imps, calls []string
	var good []int
	for _, i := range idxs {
		if !bad[i] {
			good = append(good, i)
		}
	}
	sort.Ints(good)
	for _, i := range good {
		imps = append(imps, fmt.Sprintf("\t%q", "seqh/"+shapes[i].Name))
		calls = append(calls, fmt.Sprintf("\temit(enc, %s.Run())", shapes[i].Name))
	}
	if len(good) > 0 {
		drv := "package main\n\nimport (\n\t\"encoding/json\"\n\t\"os\"\n\n\t\"verif/seqrt\"\n\n" + strings.Join(imps, "\n") + "\n)\n\nfunc emit(enc *json.Encoder, r *seqrt.Result) {\n\tr.MapRanges, r.Uncontrolled = seqrt.MapRanges, seqrt.Uncontrolled\n\tenc.Encode(r)\n}\n\nfunc main() {\n\tenc := json.NewEncoder(os.Stdout)\n" + strings.Join(calls, "\n") + "\n}\n"
		os.MkdirAll(filepath.Join(mod, "driver"), 0o755)
		os.WriteFile(filepath.Join(mod, "driver", "main.go"), []byte(drv), 0o644)
		bin := filepath.Join(scratch, "seqdriver.bin")
		mustRun("build seqsim driver", mod, goEnv(), 20*time.Minute, "go", "build", "-o", bin, "./driver")
		buildS = time.Since(t0).Seconds()
		r := runCmd(mod, os.Environ(), 20*time.Minute, bin)
		if r.Exit != 0 {
			// a panic inside a generated function under test is a violation of the shape that was running
			last := ""
			dec := json.NewDecoder(strings.NewReader(r.Stdout))
			n := 0
			for dec.More() {
				var res seqrt.Result
				if dec.Decode(&res) != nil {
					break
				}
				rr := res
				results = append(results, &rr)
				last = res.Shape
				n++
			}
			culprit := -1
			if n < len(good) {
				culprit = good[n]
			}
			if culprit < 0 {
				harnessTrouble("seqsim driver failed after all shapes (last %s): %s", last, firstLines(r.Stderr, 5))
			}
			viols = append(viols, seqViolation{Shape: shapes[culprit], Index: culprit, Clause: "panic", Detail: firstLines(r.Stderr, 4)})
			return
		}
		dec := json.NewDecoder(strings.NewReader(r.Stdout))
		for dec.More() {
			var res seqrt.Result
			if err := dec.Decode(&res); err != nil {
				harnessTrouble("seqsim driver output: %v", err)
			}
			rr := res
			results = append(results, &rr)
			for _, p := range res.Problems {
				i := byName[p.Shape]
				viols = append(viols, seqViolation{Shape: shapes[i], Index: i, Clause: p.Clause, Fault: p.Fault, Detail: p.Detail})
			}
		}
	} else {
		buildS = time.Since(t0).Seconds()
	}
	return
}

type SeqReplayFile struct {
	Property  string         `json:"property"`
	Violation string         `json:"violation"`
	Detail    string         `json:"detail"`
	Fault     string         `json:"fault"`
	Seed      int64          `json:"seed"`
	Run       int            `json:"run"`
	Decoded   map[string]any `json:"decoded"`
	Source    string         `json:"source"`
	Engine    string         `json:"engine"`
	RepoRev   string         `json:"repo_rev"`
}

func seqFacts(v seqViolation) map[string]string {
	return map[string]string{"clause": v.Clause, "detail": v.Detail, "fault": v.Fault, "kind": v.Shape.Kind, "source": v.Shape.Source}
}

func seqCheck(o checkOpts, level, rule string, nQuick, nThorough int) int {
	ev := newEvidence(o.id, o.tier, o.seed, level)
	scratch := scratchDir("seq")
	defer cleanup()
	repo := filepath.Join(scratch, "repo")
	copyRepo(repo)
	gd := filepath.Join(scratch, "goderive")
	buildGoderive(repo, gd)
	os.RemoveAll(repo)
	n := nQuick
	if o.tier == "thorough" {
		n = nThorough
	}
	if v := os.Getenv("VERIF_RUNS"); v != "" {
		fmt.Sscan(v, &n)
	}
	t0 := time.Now()
	kfs := loadKnownFindings()
	// listed findings: their committed reproducer shapes run in the same module (indices from 1<<20)
	idxs := make([]int, n)
	for i := range idxs {
		idxs[i] = i
	}
	var results []*seqrt.Result
	var viols []seqViolation
	shapes := map[int]*seqgen.Shape{}
	buildTotal := 0.0
	// batches keep one broken shape from costing the whole run and bound build memory
	const batch = 400
	for lo := 0; lo < n; lo += batch {
		hi := lo + batch
		if hi > n {
			hi = n
		}
		rs, vs, sh, bs := seqRunShapes(o.id, o.seed, idxs[lo:hi], scratch, gd, o.jobs)
		results = append(results, rs...)
		viols = append(viols, vs...)
		for k, v := range sh {
			shapes[k] = v
		}
		buildTotal += bs
	}
	wall := time.Since(t0).Seconds()
	cases, calls, faults := 0, 0, 0
	kinds := map[string]int{}
	distinct := map[string]bool{}
	var samples []any
	mapRanges, uncontrolled := 0, 0
	for _, r := range results {
		cases += r.Cases
		calls += r.Calls
		faults += r.Faults
		// cumulative per driver process: the last result of a batch carries the batch total
		if r.MapRanges > mapRanges {
			mapRanges = r.MapRanges
		}
		if r.Uncontrolled > uncontrolled {
			uncontrolled = r.Uncontrolled
		}
	}
	for _, i := range idxs {
		sh := shapes[i]
		kinds[sh.Kind]++
		distinct[fmt.Sprint(sh.Decoded)] = true
		if len(samples) < 3 {
			samples = append(samples, map[string]any{"shape": sh.Name, "decoded": sh.Decoded})
		}
	}
	for _, r := range results {
		if len(samples) < 5 && r.Sample != "" {
			samples = append(samples, map[string]any{"shape": r.Shape, "last_injection": r.Sample})
		}
	}
	cov := ev.Coverage
	cov["evaluations"] = cases
	cov["distinct_nontrivial"] = len(distinct)
	cov["rule"] = rule
	cov["samples"] = samples
	cov["shapes"] = n
	cov["shapes_by_kind"] = kinds
	cov["stage_invocations_observed"] = calls
	cov["faults_fired"] = map[string]int{"stage_failure_injected": faults}
	cov["map_iteration_seam"] = map[string]any{"range_statements_rewritten_in_generated_code": seqMapSites, "ranges_ordered_by_the_harness_largest_batch": mapRanges, "ranges_with_uncontrollable_keys": uncontrolled}
	cov["exhaustive_per_shape"] = true
	cov["simulated_time"] = "no clock; logical time = stage / function invocations observed"
	cov["runs_per_hour"] = int(float64(cases) / wall * 3600)
	cov["seeds"] = map[string]any{"base_seed": o.seed, "shape_index_from": 0, "shape_index_to": n, "seed_of_shape": "Mix(VERIF_SEED, property, shape index)"}
	cov["components"] = map[string]any{
		"real": []string{"goderive built from the working tree generating derived.gen.go for every shape package", "the generated helpers, compiled and executed by the Go toolchain (only their ranges over maps are redirected to the harness)"},
		"stub": []string{"the stage functions / the memoised function (harness stubs that log their arguments and fail or count on command)", "iteration order of every range over a map in the generated code (seqrt.Keys: canonical order permuted per site and visit)"},
	}
	cov["build_s"] = buildTotal
	cov["wall_s_total"] = wall
	ev.Assumptions = []string{"single caller thread: the generated code under this property has no concurrency, so there is no schedule to explore; the simulator owns the environment (which stage fails, with which error; which call history) and enumerates it per shape", "shapes (programs) are sampled"}

	// verdict
	exit := 0
	known := map[string]int{}
	sort.Slice(viols, func(i, j int) bool { return viols[i].Index < viols[j].Index })
	for _, v := range viols {
		if k := matchKnown(kfs, o.id, seqFacts(v)); k != nil {
			known[k.ID]++
			continue
		}
		ev.Violations++
		if exit == 0 {
			rf := &SeqReplayFile{Property: o.id, Violation: v.Clause, Detail: v.Detail, Fault: v.Fault, Seed: o.seed, Run: v.Index, Decoded: v.Shape.Decoded, Source: v.Shape.Source, Engine: "seqsim", RepoRev: repoRev()}
			dir := replaysDir()
			os.MkdirAll(dir, 0o755)
			path := filepath.Join(dir, fmt.Sprintf("%s-%d-%d.json", o.id, o.seed, v.Index))
			b, _ := json.MarshalIndent(rf, "", " ")
			os.WriteFile(path, b, 0o644)
			fmt.Printf("violation: shape %d (%s) clause=%s fault=[%s]: %s\n", v.Index, v.Shape.Kind, v.Clause, v.Fault, v.Detail)
			fmt.Printf("VIOLATION property=%s replay=%s\n", o.id, path)
			exit = 1
		}
	}
	if os.Getenv("VERIF_SURVEY") != "" {
		for _, v := range viols {
			d := v.Detail
			if len(d) > 260 {
				d = d[:260]
			}
			fmt.Printf("SURVEY shape %d kind=%s clause=%s fault=[%s]: %s\n", v.Index, v.Shape.Kind, v.Clause, v.Fault, strings.ReplaceAll(d, "\n", " | "))
		}
	}
	for _, k := range kfs {
		if k.Property == o.id && k.Status == "known" && known[k.ID] > 0 {
			fmt.Printf("KNOWN-FINDING: property=%s %s\n", o.id, k.Text)
		}
	}
	cov["known_findings_matched"] = known
	ev.write()
	if exit == 0 {
		fmt.Printf("%s: held on %d shapes, %d injection points / histories, %d stage invocations in %.1fs\n", o.id, n, cases, calls, wall)
	}
	return exit
}

// seqReplay regenerates the one shape of a replay file from seed and index and runs it.
func seqReplay(prop, path string) int {
	b, err := os.ReadFile(path)
	if err != nil {
		fmt.Fprintln(os.Stderr, err)
		return 2
	}
	var rf SeqReplayFile
	if err := json.Unmarshal(b, &rf); err != nil {
		fmt.Fprintln(os.Stderr, err)
		return 2
	}
	scratch := scratchDir("seq")
	defer cleanup()
	repo := filepath.Join(scratch, "repo")
	copyRepo(repo)
	gd := filepath.Join(scratch, "goderive")
	buildGoderive(repo, gd)
	_, viols, shapes, _ := seqRunShapes(prop, rf.Seed, []int{rf.Run}, scratch, gd, 1)
	fmt.Println(shapes[rf.Run].Source)
	if len(viols) == 0 {
		fmt.Println("REPLAY: property held on this shape")
		return 0
	}
	for _, v := range viols {
		fmt.Printf("REPLAY: clause=%s fault=[%s] %s\n", v.Clause, v.Fault, v.Detail)
	}
	fmt.Printf("VIOLATION property=%s replay=%s\n", prop, path)
	return 1
}

func init() {
	replayers["seqsim"] = seqReplay
	checks["C16"] = func(o checkOpts) int {
		// first part: every shape and injection point with one caller (seqsim); second part: one composed
		// function called from several simulated tasks at once (chansim), coverage under "concurrent_callers"
		if rc := c16Sequential(o); rc != 0 {
			return rc
		}
		if os.Getenv("VERIF_C16_NO_CONCURRENT") != "" {
			return 0
		}
		return chanCheckSub(o, "concurrent_callers")
	}
	c16Sequential = func(o checkOpts) int {
		return seqCheck(o, "fault_enumeration",
			"one shape = one generated package: a Compose chain of 2-4 stages with 0-2 initial parameters and 0-3 values between stages and at the end, an error form of Fmap (value / void / function+Join / tuple), the error form of Join, Traverse, or ToError with 0-2 parameters and 0-2 extra results, over {int, string, named int, named string, struct, arrays, pointer, slice, map, interface, float, bool, anonymous struct}; per shape the injection points are enumerated exhaustively: no failure, or each stage failing with each of two error values of different dynamic type (a failing stage returns non-zero partial results with its error); Traverse: every list length 0-5 x failure at every index; Join: outer error x inner failure; ToError: both truth values x both errors. evaluations = injection points executed; distinct_nontrivial = distinct shapes (kind + types); oracle = hand-written sequential composition with zero values by `var z T`: results DeepEqual, error identical (==), stage call log (order, arguments, exactly-once, none after the failing one) identical; a shape goderive accepts but whose output does not compile is a violation",
			120, 3000)
	}
	checks["C18"] = func(o checkOpts) int {
		return seqCheck(o, "exploration",
			"one shape = one generated package: a function f with 0-3 parameters over comparable and non-comparable types (int, string, named int, struct, array, pointer, slices, maps, nested slices, struct with a slice field, float64 with +0/-0) and 0-3 results, instrumented to count its invocations per structural argument class, memoised with deriveMem; per shape 4-8 call histories of 1-16 calls each, drawn from pools of argument literals (fresh values on every call: Equal but not identical; nil vs empty; equal contents at distinct addresses; maps written in different orders; pairs that collide under the generated 31-polynomial hash such as []int{0,31} / []int{1,0} and \"Aa\" / \"BB\"), half of the calls repeating an earlier tuple. Reference model: a map from a canonical structural encoding of the argument tuple to f's results. Checked call by call: mem's results equal f's; per history: f ran exactly once per argument class. evaluations = histories executed; distinct_nontrivial = distinct (signature, histories)",
			100, 2500)
	}
}
