package main

import (
	"bytes"
	"fmt"
	"go/ast"
	"go/parser"
	"go/printer"
	"go/token"
	"go/types"
	"path/filepath"
	"sort"
	"strconv"
	"strings"
	"time"

	"verif/internal/world"
	"verif/tape"
)

func init() {
	checks["C12"] = func(o checkOpts) int {
		return runGenCheck(o, "exploration",
			genBudget{cases: 1200, wall: 80 * time.Second, shrinkN: 40, shrinkT: 60 * time.Second},
			genBudget{cases: 12000, wall: 25 * time.Minute, shrinkN: 200, shrinkT: 8 * time.Minute},
			"one case = one generated module rendered twice: A with the default prefixes, B with every derive call renamed through a tape-drawn prefix map (global -prefix, per-plugin -pluginprefix overrides, overrides where one plugin's prefix is a proper prefix of another's); A runs with the default flags, B with the matching flags under 2 tape-drawn permutations of the plugin registration order and map-iteration plans; clauses: same exit status; for a global prefix only, B's file with the prefixes mapped back is byte-identical to A's; otherwise both files canonicalised (every generated function renamed to <plugin by longest configured prefix>/<parameter types>, comments dropped, declarations sorted) are equal; B's outputs are identical under both registration orders; distinct = (world, prefix map) hash; non-trivial = a prefix map was drawn",
			[]string{"helper names are free (the statement says so); canonicalisation identifies a function by plugin and parameter types"})
	}
	genCases["C12"] = c12Case
}

// canonicalDerived renames every function declared in a derived.gen.go to
// plugin/paramtypes and returns the sorted declarations as text.
func canonicalDerived(src string, prefixOf func(plugin string) string) (string, error) {
	fset := token.NewFileSet()
	f, err := parser.ParseFile(fset, "derived.gen.go", src, 0)
	if err != nil {
		return "", err
	}
	type pp struct{ prefix, plugin string }
	var pps []pp
	for _, pl := range world.AllPlugins {
		pps = append(pps, pp{prefixOf(pl), pl})
	}
	sort.Slice(pps, func(i, j int) bool {
		if len(pps[i].prefix) != len(pps[j].prefix) {
			return len(pps[i].prefix) > len(pps[j].prefix)
		}
		return pps[i].prefix > pps[j].prefix
	})
	// Which of two same-named imported packages gets the short alias depends
	// on the order in which the plugins first mention them, and that order
	// legitimately follows the prefix lengths: the alias is a file-level name,
	// not part of a generated function. References are therefore rewritten to
	// the import path (only identifiers the parser left unresolved, i.e.
	// package names, are touched).
	alias := map[string]string{}
	var decls []string
	var imps []string
	for _, d := range f.Decls {
		if gd, ok := d.(*ast.GenDecl); ok && gd.Tok == token.IMPORT {
			for _, s := range gd.Specs {
				is := s.(*ast.ImportSpec)
				path, _ := strconv.Unquote(is.Path.Value)
				n := path[strings.LastIndex(path, "/")+1:]
				if is.Name != nil {
					n = is.Name.Name
				}
				if _, dup := alias[n]; dup {
					return "", fmt.Errorf("import name %s used twice", n)
				}
				alias[n] = "pkg·" + strings.NewReplacer("/", "·", ".", "·").Replace(path)
				imps = append(imps, is.Path.Value)
			}
		}
	}
	ast.Inspect(f, func(n ast.Node) bool {
		if se, ok := n.(*ast.SelectorExpr); ok {
			if id, ok := se.X.(*ast.Ident); ok && id.Obj == nil {
				if c, ok := alias[id.Name]; ok {
					id.Name = c
				}
			}
		}
		return true
	})
	canon := map[string]string{}
	for _, d := range f.Decls {
		fd, ok := d.(*ast.FuncDecl)
		if !ok || fd.Recv != nil {
			continue
		}
		plugin := "?"
		for _, p := range pps {
			if strings.HasPrefix(fd.Name.Name, p.prefix) {
				plugin = p.plugin
				break
			}
		}
		var ps []string
		for _, fl := range fd.Type.Params.List {
			n := len(fl.Names)
			if n == 0 {
				n = 1
			}
			for i := 0; i < n; i++ {
				ps = append(ps, types.ExprString(fl.Type))
			}
		}
		c := "F·" + plugin + "(" + strings.Join(ps, ",") + ")"
		if _, dup := canon[fd.Name.Name]; dup {
			return "", fmt.Errorf("function %s declared twice", fd.Name.Name)
		}
		canon[fd.Name.Name] = c
	}
	ast.Inspect(f, func(n ast.Node) bool {
		if id, ok := n.(*ast.Ident); ok {
			if c, ok := canon[id.Name]; ok {
				id.Name = c
			}
		}
		return true
	})
	for _, d := range f.Decls {
		var buf bytes.Buffer
		if gd, ok := d.(*ast.GenDecl); ok && gd.Tok == token.IMPORT {
			continue
		}
		if fd, ok := d.(*ast.FuncDecl); ok {
			fd.Doc = nil
		}
		printer.Fprint(&buf, fset, d)
		decls = append(decls, buf.String())
	}
	sort.Strings(decls)
	sort.Strings(imps)
	return "imports: " + strings.Join(imps, ", ") + "\n" + strings.Join(decls, "\n\n"), nil
}

func c12Case(ctx *genCtx, ts *tape.Set, dir string) *genResult {
	prof := drawProfile(ts.Fork("profile"), ctx.tier)
	// hand-written functions with derive-like names stay in (renamed to the prefixes in force for the
	// prefixed run): the names goderive invents must avoid them under every prefix map
	prof.Q = false
	w := world.Generate(ts.Fork("world"), prof)
	res := &genResult{Sample: map[string]any{}}
	// A: default
	filesA := w.Render()
	dirA := filepath.Join(dir, "A")
	writeWorld(dirA, filesA)
	if probs := userSourceProblems(dirA, w, "./p"); len(probs) > 0 {
		res.probe("world.invalid_discarded")
		res.Sample["invalid_world"] = probs
		return res
	}
	rA := runGoderive(ctx.bins.inst, dirA, []string{"./p"}, &Plan{MapMode: "identity"}, 0)
	res.count(rA)
	outA := derivedFiles(dirA)["p/derived.gen.go"]
	// B: prefix map
	w.DrawPrefixes(ts.Fork("prefix"))
	flags := w.PrefixFlags()
	filesB := w.Render()
	res.Sample["files"] = userSources(filesB)
	res.Sample["flags"] = flags
	res.Hash = worldHash(filesB, strings.Join(flags, " "))
	res.Nontrivial = len(flags) > 0
	if w.Prefix != nil {
		res.probe("prefix.per_plugin_overrides")
	}
	if w.GlobalPfx != "" {
		res.probe("prefix.global")
	}
	facts := map[string]string{"flags": strings.Join(flags, " "), "sources": joinFiles(userSources(filesB))}
	pt := ts.Fork("plan")
	var outsB []string
	for k := 0; k < 2; k++ {
		plan := drawPlan(pt)
		plan.PluginOrder = uint64(1 + pt.Intn(1<<16))
		if k == 0 && pt.Bool() {
			plan.PluginOrder = 0
		}
		dirB := filepath.Join(dir, fmt.Sprintf("B%d", k))
		writeWorld(dirB, filesB)
		rB := runGoderive(ctx.bins.inst, dirB, append(append([]string{}, flags...), "./p"), plan, 0)
		res.count(rB)
		if m := noCrash(rB); m != "" {
			res.SawPanic = true
		}
		outB := derivedFiles(dirB)["p/derived.gen.go"]
		outsB = append(outsB, outB)
		facts["stderr"] = rB.Stderr
		desc := fmt.Sprintf("plugin order seed %d, map %s/%d", plan.PluginOrder, plan.MapMode, plan.MapSeed)
		if rA.Exit != rB.Exit {
			res.V = &genViolation{Clause: "exit-differs", Detail: fmt.Sprintf("default run exits %d (%s), prefixed run (%v, %s) exits %d (%s)", rA.Exit, firstLines(rA.Stderr, 1), flags, desc, rB.Exit, firstLines(rB.Stderr, 2)), Facts: facts}
			return res
		}
		if rA.Exit != 0 {
			continue
		}
		if k == 0 {
			if errsA := typecheck(dirA, "./p"); len(errsA) == 0 {
				if errsB := typecheck(dirB, "./p"); len(errsB) > 0 {
					facts["typeerrors"] = strings.Join(errsB, "\n")
					res.V = &genViolation{Clause: "prefixed-run-not-typecheck", Detail: fmt.Sprintf("flags %v (%s): the default run gives a package that type-checks, the prefixed run does not: %s", flags, desc, strings.Join(errsB, " | ")), Facts: facts}
					return res
				}
			}
		}
		if w.Prefix == nil {
			// global prefix (or none): textually identical after mapping the prefixes back
			back := outB
			type kv struct{ from, to string }
			var kvs []kv
			for _, pl := range world.AllPlugins {
				kvs = append(kvs, kv{w.PrefixOf(pl), world.PluginPrefix[pl]})
			}
			sort.Slice(kvs, func(i, j int) bool { return len(kvs[i].from) > len(kvs[j].from) })
			if w.GlobalPfx != "" {
				for _, e := range kvs {
					back = strings.ReplaceAll(back, e.from, "\x00"+e.to[len("derive"):])
				}
				back = strings.ReplaceAll(back, "\x00", "derive")
			}
			if back != outA {
				res.V = &genViolation{Clause: "global-prefix-not-textual", Detail: fmt.Sprintf("flags %v (%s): output with the prefix mapped back differs from the default output: %s", flags, desc, firstDiff(outA, back)), Facts: facts}
				return res
			}
			continue
		}
		ca, errA := canonicalDerived(outA, func(pl string) string { return world.PluginPrefix[pl] })
		cb, errB := canonicalDerived(outB, w.PrefixOf)
		if errA != nil || errB != nil {
			res.V = &genViolation{Clause: "unparseable-output", Detail: fmt.Sprintf("flags %v: %v %v", flags, errA, errB), Facts: facts}
			return res
		}
		if ca != cb {
			res.V = &genViolation{Clause: "not-a-renaming", Detail: fmt.Sprintf("flags %v (%s): canonical forms differ: %s", flags, desc, firstDiff(ca, cb)), Facts: facts}
			return res
		}
	}
	if len(outsB) == 2 && outsB[0] != outsB[1] {
		res.V = &genViolation{Clause: "depends-on-registration-order", Detail: fmt.Sprintf("flags %v: outputs differ between two plugin registration orders / map plans: %s", flags, firstDiff(outsB[0], outsB[1])), Facts: facts}
	}
	return res
}
