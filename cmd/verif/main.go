// Command verif is the single entry point of the verification machinery:
// check | replay | selftest | xlate | instrument.
package main

import (
	"encoding/json"
	"fmt"
	"os"
	"path/filepath"
)

func usage() {
	fmt.Fprintln(os.Stderr, "usage: verif check <id> [--tier quick|thorough] [--seed n] | replay <file> | selftest <name> | xlate <src> <dst> | instrument <copy>")
	os.Exit(2)
}

var checks = map[string]func(checkOpts) int{}
var replayers = map[string]func(prop, path string) int{
	"chansim": chanReplay,
}
var commands = map[string]func([]string) int{}

func main() {
	if len(os.Args) < 2 {
		usage()
	}
	switch os.Args[1] {
	case "check":
		o := parseCheckOpts(os.Args[2:])
		f, ok := checks[o.id]
		if !ok {
			fmt.Fprintf(os.Stderr, "no check for %q\n", o.id)
			os.Exit(2)
		}
		code := f(o)
		cleanup()
		os.Exit(code)
	case "replay":
		if len(os.Args) != 3 {
			usage()
		}
		if abs, err := filepath.Abs(os.Args[2]); err == nil {
			os.Args[2] = abs
		}
		b, err := os.ReadFile(os.Args[2])
		if err != nil {
			fmt.Fprintln(os.Stderr, err)
			os.Exit(2)
		}
		var hdr struct {
			Property string `json:"property"`
			Engine   string `json:"engine"`
		}
		if err := json.Unmarshal(b, &hdr); err != nil {
			fmt.Fprintln(os.Stderr, err)
			os.Exit(2)
		}
		r, ok := replayers[hdr.Engine]
		if !ok {
			fmt.Fprintf(os.Stderr, "no replayer for engine %q\n", hdr.Engine)
			os.Exit(2)
		}
		code := r(hdr.Property, os.Args[2])
		cleanup()
		os.Exit(code)
	case "xlate":
		os.Exit(cmdXlate(os.Args[2:]))
	default:
		if f, ok := commands[os.Args[1]]; ok {
			code := f(os.Args[2:])
			cleanup()
			os.Exit(code)
		}
		usage()
	}
}
