package main

import (
	"fmt"
	"go/ast"
	"go/importer"
	"go/parser"
	"go/token"
	"go/types"
	"os"
	"path/filepath"
	"sort"
	"strings"
	"sync"

	"verif/internal/world"
)

// The type-check oracle. Worlds are tiny modules (example.com/w/...) that
// import only the standard library and each other, so they are checked
// in-process with go/types: standard-library packages come from one shared
// source importer (type-checked once per process), module-local packages are
// parsed and checked from the world directory. This is the same verdict the
// Go compiler gives (go/types is its front end) at a few milliseconds per
// world instead of a `go list` round trip.

var (
	stdMu   sync.Mutex
	stdFset = token.NewFileSet()
	stdImp  = importer.ForCompiler(stdFset, "source", nil)
)

type stdImporter struct{}

func (stdImporter) Import(path string) (*types.Package, error) {
	stdMu.Lock()
	defer stdMu.Unlock()
	return stdImp.Import(path)
}

// tcPackage is one type-checked package of a world.
type tcPackage struct {
	Dir    string // relative directory ("p")
	Name   string
	Fset   *token.FileSet
	Files  []*ast.File
	Info   *types.Info
	Types  *types.Package
	Errors []string
}

type worldChecker struct {
	root  string
	fset  *token.FileSet
	cache map[string]*types.Package // import path -> package (without tests)
}

func (wc *worldChecker) Import(path string) (*types.Package, error) {
	if path == "unsafe" {
		return types.Unsafe, nil
	}
	if strings.HasPrefix(path, world.ModulePath+"/") || path == "example.com/wdep" {
		if p, ok := wc.cache[path]; ok {
			return p, nil
		}
		rel := strings.TrimPrefix(path, world.ModulePath+"/")
		if path == "example.com/wdep" {
			rel = "dep"
		}
		tp, _ := wc.check(rel, false, false)
		if tp == nil || tp.Types == nil {
			return nil, fmt.Errorf("cannot import %s", path)
		}
		wc.cache[path] = tp.Types
		return tp.Types, nil
	}
	return stdImporter{}.Import(path)
}

// check parses and type-checks the package in root/rel. withTests adds the
// in-package _test.go files; external selects the external test package
// (package x_test) instead.
func (wc *worldChecker) check(rel string, withTests, external bool) (*tcPackage, error) {
	dir := filepath.Join(wc.root, rel)
	ents, err := os.ReadDir(dir)
	if err != nil {
		return nil, err
	}
	tp := &tcPackage{Dir: rel, Fset: wc.fset, Info: &types.Info{
		Types: map[ast.Expr]types.TypeAndValue{}, Defs: map[*ast.Ident]types.Object{}, Uses: map[*ast.Ident]types.Object{}, Selections: map[*ast.SelectorExpr]*types.Selection{}}}
	relErr := func(s string) string { return strings.ReplaceAll(s, wc.root+"/", "") }
	var names []string
	for _, e := range ents {
		if !e.IsDir() && strings.HasSuffix(e.Name(), ".go") {
			names = append(names, e.Name())
		}
	}
	sort.Strings(names)
	pkgNames := map[string]bool{}
	for _, n := range names {
		isTest := strings.HasSuffix(n, "_test.go")
		if isTest && !withTests && !external {
			continue
		}
		f, err := parser.ParseFile(wc.fset, filepath.Join(dir, n), nil, parser.ParseComments)
		if f == nil {
			tp.Errors = append(tp.Errors, relErr(err.Error()))
			continue
		}
		isExt := strings.HasSuffix(f.Name.Name, "_test")
		if external != isExt {
			continue
		}
		if err != nil {
			// syntax errors: report the first few, keep the partial file out of the check
			for _, l := range strings.Split(err.Error(), "\n") {
				tp.Errors = append(tp.Errors, relErr(l))
			}
			continue
		}
		pkgNames[f.Name.Name] = true
		tp.Files = append(tp.Files, f)
		// go/types accepts a function declaration without body (it may be implemented in assembly);
		// the compiler does not for a package without assembly files, and worlds have none
		for _, d := range f.Decls {
			if fd, ok := d.(*ast.FuncDecl); ok && fd.Body == nil {
				tp.Errors = append(tp.Errors, relErr(fmt.Sprintf("%s: missing function body", wc.fset.Position(fd.Pos()))))
			}
		}
	}
	if len(tp.Files) == 0 {
		if len(tp.Errors) == 0 && !external {
			tp.Errors = append(tp.Errors, rel+": no Go files")
		}
		return tp, nil
	}
	if len(pkgNames) > 1 {
		var ns []string
		for n := range pkgNames {
			ns = append(ns, n)
		}
		sort.Strings(ns)
		tp.Errors = append(tp.Errors, fmt.Sprintf("%s: found packages %s", rel, strings.Join(ns, ", ")))
	}
	tp.Name = tp.Files[0].Name.Name
	conf := types.Config{Importer: wc, Error: func(err error) {
		tp.Errors = append(tp.Errors, relErr(err.Error()))
	}}
	path := world.ModulePath + "/" + rel
	if external {
		path += "_test"
	}
	tp.Types, _ = conf.Check(path, wc.fset, tp.Files, tp.Info)
	return tp, nil
}

// typecheckWorld checks the packages at the given relative directories
// (with their tests) and returns them; errs is the deduplicated, sorted,
// truncated list of error messages in "p/file.go:line:col: message" form.
func typecheckWorld(root string, rels ...string) (pkgs []*tcPackage, errs []string) {
	pkgs, errs = typecheckWorldAll(root, rels...)
	if len(errs) > 6 {
		errs = errs[:6]
	}
	return pkgs, errs
}

// typecheckWorldAll is typecheckWorld without the cut to six messages (an
// oracle that sorts errors into "the user's" and "the generated code's" must
// see all of them).
func typecheckWorldAll(root string, rels ...string) (pkgs []*tcPackage, errs []string) {
	wc := &worldChecker{root: root, fset: token.NewFileSet(), cache: map[string]*types.Package{}}
	seen := map[string]bool{}
	for _, rel := range rels {
		rel = strings.TrimPrefix(rel, "./")
		for _, external := range []bool{false, true} {
			tp, err := wc.check(rel, true, external)
			if err != nil {
				errs = append(errs, err.Error())
				continue
			}
			if external && len(tp.Files) == 0 {
				continue
			}
			pkgs = append(pkgs, tp)
			for _, e := range tp.Errors {
				if !seen[e] {
					seen[e] = true
					errs = append(errs, e)
				}
			}
		}
	}
	sort.Strings(errs)
	return pkgs, errs
}
