package main

import (
	"fmt"
	"go/parser"
	"go/token"
	"path/filepath"
	"strings"
	"time"

	"verif/internal/world"
	"verif/tape"
)

func init() {
	checks["C09"] = func(o checkOpts) int {
		return runGenCheck(o, "exploration",
			genBudget{cases: 900, wall: 90 * time.Second, shrinkN: 40, shrinkT: 60 * time.Second},
			genBudget{cases: 12000, wall: 25 * time.Minute, shrinkN: 200, shrinkT: 8 * time.Minute},
			"one case = one generated module executed fault-free under two map-iteration plans. Positive profile: supported shapes only (as C01). Negative profile: the same modules with one unsupported or malformed constituent spliced in from a table of ~130 snippets (chan / func / interface / unsafe.Pointer as argument, element, key, pointer target or struct field at a tape-chosen position; unordered element types for Min/Max/Sort; non-function arguments; wrong arity; mismatched argument types; variadic signatures; unnamed / blank / generator-named parameters; functions without results; syntactically or type-wise broken user files). Clauses: exit status 0 or 1, no panic text, finished within the watchdog; exit 0 => derived.gen.go parses and every type error is in the user's own files; exit 1 => a message that names the call, the plugin or the type; same exit status under both plans. Injected I/O faults are deliberately not used (the statement quantifies over input packages). distinct = (world, snippet) hash; non-trivial = negative profile",
			[]string{"'names the call or type' is checked loosely: the message contains the call name, the plugin name or the offending type"})
	}
	genCases["C09"] = c09Case
	genDirected["C09"] = func(ctx *genCtx, in *DirectedInput, dir string) *genViolation {
		writeWorld(dir, in.Versions[0])
		args := in.Args
		if len(args) == 0 {
			args = []string{"./p"}
		}
		s := world.NegSnippet{}
		if in.MustReject {
			s.Kind = "chanfunc" // the input holds a constituent outside the plugin's supported set: exit 0 is a violation
		}
		_, v := c09Oracle(ctx, dir, in.Versions[0], args, &Plan{MapMode: "identity"}, s)
		return v
	}
}

// mustReject: the kinds of the snippet table whose constituent is outside the
// addressed plugin's supported set (the others are unusual but supported
// shapes, accepted or rejected at goderive's discretion).
var mustReject = map[string]bool{"chanfunc": true, "iface": true, "field": true, "nonfunc": true, "arity": true, "mismatch": true}

// callSiteError: a type error of the compiler that names a derive-prefixed
// function as the callee whose parameters or results do not fit.
func callSiteError(e string) bool {
	for _, marker := range []string{"in argument to ", "in call to ", "arguments in call to "} {
		if i := strings.Index(e, marker); i >= 0 {
			name := e[i+len(marker):]
			if j := strings.IndexAny(name, " \n(:,"); j >= 0 {
				name = name[:j]
			}
			if derivePrefixed(name) {
				return true
			}
		}
	}
	return false
}

func derivePrefixed(name string) bool {
	for _, pl := range world.AllPlugins {
		if strings.HasPrefix(name, world.PluginPrefix[pl]) {
			return true
		}
	}
	return false
}

// c09Oracle: one execution + the clean-ending clauses.
func c09Oracle(ctx *genCtx, dir string, files map[string]string, args []string, plan *Plan, s world.NegSnippet) (*genRun, *genViolation) {
	r := runGoderive(ctx.bins.inst, dir, args, plan, 0)
	facts := map[string]string{"stderr": r.Stderr, "sources": joinFiles(userSources(files)), "kind": s.Kind, "plugin": s.Plugin, "snippet": s.Text, "typeerrors": "", "derived": derivedFiles(dir)["p/derived.gen.go"]}
	if m := noCrash(r); m != "" {
		clause := "crash"
		if r.TimedOut {
			clause = "hang"
		}
		return r, &genViolation{Clause: clause, Detail: fmt.Sprintf("[%s %s] %s", s.Kind, s.Call, m), Facts: facts}
	}
	if r.Exit == 0 {
		for _, rel := range sortedKeysStr(derivedFiles(dir)) {
			b := derivedFiles(dir)[rel]
			if _, err := parser.ParseFile(token.NewFileSet(), rel, b, 0); err != nil {
				facts["typeerrors"] = err.Error()
				return r, &genViolation{Clause: "exit0-unparseable-file", Detail: fmt.Sprintf("[%s %s] goderive exits 0 but %s does not parse: %v", s.Kind, s.Call, rel, err), Facts: facts}
			}
		}
		_, errs := typecheckWorldAll(dir, args...)
		var ours, theirs []string
		for _, e := range errs {
			switch {
			case strings.Contains(e, "derived.gen.go:"):
				ours = append(ours, e)
			case strings.Contains(e, "undefined: "):
				name := strings.TrimSpace(e[strings.Index(e, "undefined: ")+len("undefined: "):])
				if derivePrefixed(name) {
					ours = append(ours, e)
				} else {
					theirs = append(theirs, e)
				}
			case callSiteError(e):
				// the error sits in the user's file but is about what a derive call takes or returns:
				// goderive accepted the call and generated a function that does not fit it
				ours = append(ours, e)
			default:
				theirs = append(theirs, e)
			}
		}
		if len(ours) > 0 && len(theirs) == 0 {
			facts["typeerrors"] = strings.Join(ours, "\n")
			if len(ours) > 6 {
				ours = ours[:6]
			}
			return r, &genViolation{Clause: "exit0-bad-file", Detail: fmt.Sprintf("[%s %s %s] goderive exits 0 but the package does not type-check because of the generated code: %s", s.Kind, s.Call, s.Type, strings.Join(ours, " | ")), Facts: facts}
		}
		if mustReject[s.Kind] && !strings.Contains(s.Type, "unsafe.Pointer") && len(theirs) == 0 {
			// "an argument type outside a plugin's supported set is always reported that way"
			return r, &genViolation{Clause: "unsupported-accepted", Detail: fmt.Sprintf("[%s %s %s] goderive exits 0 without a message for a call the plugin does not support", s.Kind, s.Call, s.Type), Facts: facts}
		}
		return r, nil
	}
	// exit 1: a diagnostic
	msg := strings.TrimSpace(r.Stderr)
	if msg == "" {
		return r, &genViolation{Clause: "silent-failure", Detail: fmt.Sprintf("[%s %s] exit %d without any message", s.Kind, s.Call, r.Exit), Facts: facts}
	}
	if s.Call != "" {
		nospace := func(x string) string { return strings.ReplaceAll(x, " ", "") }
		named := strings.Contains(msg, s.Call) || (s.Plugin != "" && strings.Contains(strings.ToLower(msg), s.Plugin)) || (s.Type != "" && strings.Contains(nospace(msg), nospace(s.Type)))
		// the innermost unsupported constituent counts as "the type it could not handle"
		for _, kw := range [][2]string{{"chan", "chan"}, {"chan", "types.Chan"}, {"func", "func"}, {"func", "types.Signature"}, {"interface", "interface"}, {"interface", "types.Interface"}, {"error", "types.Interface"}, {"error", "error"}, {"Pointer", "Pointer"}, {"bool", "bool"}, {"complex", "complex"}} {
			if s.Type != "" && strings.Contains(s.Type, kw[0]) && strings.Contains(msg, kw[1]) {
				named = true
			}
		}
		if !named && s.Kind != "broken" {
			return r, &genViolation{Clause: "diagnostic-names-nothing", Detail: fmt.Sprintf("[%s %s %s] exit %d, message names neither the call, the plugin nor the type: %s", s.Kind, s.Call, s.Type, r.Exit, firstLines(msg, 2)), Facts: facts}
		}
	}
	return r, nil
}

func c09Case(ctx *genCtx, ts *tape.Set, dir string) *genResult {
	mt := ts.Fork("mode")
	prof := drawProfile(ts.Fork("profile"), ctx.tier)
	enumerating := ts.Index >= 0 && ts.Index < len(world.NegSnippets)
	var negative bool
	if enumerating {
		negative = mt.Force(3, 1) > 0
	} else {
		negative = mt.Intn(3) > 0
	}
	if negative {
		// small surrounding world: the splice is what is being looked at
		prof.MaxCalls = 1 + mt.Intn(3)
		if mt.Intn(3) == 0 {
			// several packages in one invocation: the error of one must not be lost behind the others
			prof.Q, prof.Force = true, true
		} else {
			prof.Q = false
		}
	}
	w := world.Generate(ts.Fork("world"), prof)
	var s world.NegSnippet
	if negative {
		idx := -1
		if enumerating {
			idx = ts.Index
		}
		s = world.SpliceNegative(w, ts.Fork("splice"), idx)
	}
	files := w.Render()
	res := &genResult{Sample: map[string]any{"files": userSources(files), "negative": negative, "snippet_kind": s.Kind, "snippet_call": s.Call}}
	res.Hash = worldHash(files)
	res.Nontrivial = negative
	if negative {
		res.probe("neg." + s.Kind)
	}
	pt := ts.Fork("plan")
	plans := []*Plan{{MapMode: "identity"}, drawPlan(pt)}
	var exits []int
	var ops []traceOp
	for i, plan := range plans {
		d := filepath.Join(dir, fmt.Sprintf("r%d", i))
		writeWorld(d, files)
		r, v := c09Oracle(ctx, d, files, worldPkgs(w), plan, s)
		res.count(r)
		if i == 0 {
			ops = r.Ops
		}
		exits = append(exits, r.Exit)
		res.probe(fmt.Sprintf("outcome.exit%d", r.Exit))
		if v != nil {
			if v.Clause == "crash" || v.Clause == "hang" {
				res.SawPanic = true
			}
			if k := ctx.known(v); k != nil && i == 0 {
				// a listed finding: note it and do not look further at this world
				res.knownHit(k)
				return res
			}
			res.V = v
			return res
		}
	}
	if exits[0] != exits[1] {
		res.V = &genViolation{Clause: "verdict-depends-on-map-order", Detail: fmt.Sprintf("[%s %s] exit %d under the identity plan, %d under %s/%d", s.Kind, s.Call, exits[0], exits[1], plans[1].MapMode, plans[1].MapSeed),
			Facts: map[string]string{"sources": joinFiles(userSources(files)), "kind": s.Kind}}
	}
	res.Sample["exits"] = exits
	if ft := ts.Fork("iofault"); res.V == nil && len(ops) > 0 && ft.Chance(1, 3) {
		// the same world once more with one failing file-system call: the run must still end
		// cleanly, and exit 0 must still mean generated files that parse and type-check
		o := ops[ft.Intn(len(ops))]
		f := Fault{Kind: "err", Op: o.Idx, Errno: []string{"EIO", "EACCES", "ENOSPC", "EROFS"}[ft.Intn(4)]}
		if o.Kind == "write" && ft.Bool() {
			f = Fault{Kind: "short-write", Op: o.Idx, K: ft.Intn(o.N + 1), Errno: "ENOSPC"}
		}
		d := filepath.Join(dir, "rf")
		writeWorld(d, files)
		r, v := c09Oracle(ctx, d, files, worldPkgs(w), &Plan{MapMode: "identity", Faults: []Fault{f}}, world.NegSnippet{})
		res.count(r)
		res.Sample["io_fault"] = fmt.Sprintf("%s %s on %s (op %d) -> exit %d", f.Kind, f.Errno, o.Kind, o.Idx, r.Exit)
		if strings.Contains(r.Trace, "fault ") {
			res.fault(f.Kind + "-" + o.Kind)
		}
		if v != nil {
			if v.Clause == "crash" || v.Clause == "hang" {
				res.SawPanic = true
			}
			v.Detail = fmt.Sprintf("with %s (%s) injected into %s #%d: %s", f.Kind, f.Errno, o.Kind, o.Idx, v.Detail)
			v.Clause = "iofault-" + v.Clause
			res.V = v
		}
	}
	return res
}
