package main

import (
	"fmt"
	"os"
	"path/filepath"
	"strings"
	"time"

	"verif/internal/world"
	"verif/tape"
)

func init() {
	checks["C08"] = func(o checkOpts) int {
		return runGenCheck(o, "exploration",
			genBudget{cases: 800, wall: 90 * time.Second, shrinkN: 30, shrinkT: 60 * time.Second},
			genBudget{cases: 3000, wall: 25 * time.Minute, shrinkN: 150, shrinkT: 8 * time.Minute},
			"one case = one generated module executed 5-9 times from the same initial disk state, the executions differing only in simulator-owned choices: map-iteration plan (identity / reverse / rotate / random seeds) for every range over a map in goderive, permutation of loader.InitialPackages, GOMAXPROCS 1/4/16, and invocation context (cwd and spelling: '.', './p', './...', import path; p alone or together with q / ext in either order); clause: every package's derived.gen.go has the same bytes in all executions that process it; distinct = distinct (world, variant set) hash; non-trivial = world has mutually assignable types, several packages or >= 3 calls",
			[]string{"the initial disk state is identical for all executions of a case (dependence on the old file is C07's subject)"})
	}
	genCases["C08"] = c08Case
	// a directed input of C08: the plain (uninstrumented) binary run seven times over the same sources
	genDirected["C08"] = func(ctx *genCtx, in *DirectedInput, dir string) *genViolation {
		distinct := map[string]bool{}
		for rep := 0; rep < 7; rep++ {
			d := filepath.Join(dir, fmt.Sprint("r", rep))
			writeWorld(d, in.Versions[0])
			runGoderive(ctx.bins.plain, filepath.Join(d, "p"), []string{"."}, nil, 0)
			distinct[derivedFiles(d)["p/derived.gen.go"]] = true
			os.RemoveAll(d)
		}
		if len(distinct) > 1 {
			return &genViolation{Clause: "bytes-differ", Detail: fmt.Sprintf("the uninstrumented goderive wrote %d different derived.gen.go files in 7 runs over the same sources", len(distinct)), Facts: map[string]string{}}
		}
		return nil
	}
}

type invocation struct {
	Cwd  string   // relative to the world root
	Args []string // package arguments
	Pkgs []string // packages (relative dirs) this invocation processes
}

func drawInvocation(t *tape.Tape, w *world.World) invocation {
	all := []string{"p"}
	if w.HasQ {
		all = append(all, "q")
	}
	if w.HasExt {
		all = append(all, "ext", "other/ext", "msg-go")
	}
	if w.Twin > 0 {
		all = append(all, "twin/p")
	}
	switch t.Intn(6) {
	case 0:
		return invocation{Cwd: ".", Args: []string{"./p"}, Pkgs: []string{"p"}}
	case 1:
		return invocation{Cwd: "p", Args: []string{"."}, Pkgs: []string{"p"}}
	case 2:
		return invocation{Cwd: ".", Args: []string{"./..."}, Pkgs: all}
	case 3:
		return invocation{Cwd: ".", Args: []string{world.ModulePath + "/p"}, Pkgs: []string{"p"}}
	case 4:
		// p together with others, in a drawn order
		sel := []string{"p"}
		for _, o := range all[1:] {
			if t.Bool() {
				sel = append(sel, o)
			}
		}
		// rotate
		k := t.Intn(len(sel))
		sel = append(sel[k:], sel[:k]...)
		args := make([]string, len(sel))
		for i, s := range sel {
			args[i] = "./" + s
		}
		return invocation{Cwd: ".", Args: args, Pkgs: sel}
	}
	return invocation{Cwd: "p", Args: []string{"../..."}, Pkgs: all}
}

func c08Case(ctx *genCtx, ts *tape.Set, dir string) *genResult {
	res0probe := false
	prof := drawProfile(ts.Fork("profile"), ctx.tier)
	pt := ts.Fork("profile")
	if pt.Intn(3) > 0 {
		prof.NamedComposite = true // bias: mutually assignable types
	}
	if pt.Intn(4) == 0 {
		prof.Q, prof.Ext, prof.Force = true, true, true // bias: several packages sharing types of a third one
	}
	prof.Twin = ts.Fork("twin").Chance(1, 4)
	w := world.Generate(ts.Fork("world"), prof)
	if w.Twin > 0 {
		res0probe = true
	}
	if pt.Chance(1, 4) {
		w.DrawPrefixes(ts.Fork("prefix"))
	}
	files := w.Render()
	base := filepath.Join(dir, "base")
	vt := ts.Fork("variants")
	// one case in five runs in GOPATH mode (GO111MODULE=off, <root>/src/example.com/w/...), all its executions alike
	gopath := vt.Intn(5) == 0 && w.PName == ""
	sub := ""
	if gopath {
		writeWorld(base, gopathLayout(files))
		sub = "src/example.com/w"
	} else {
		writeWorld(base, files)
	}
	envFor := func(root string) []string {
		if gopath {
			return gopathEnv(root)
		}
		return nil
	}
	flags := w.PrefixFlags()
	res := &genResult{Sample: map[string]any{"files": userSources(files), "flags": flags}}
	if res0probe {
		res.probe("world.same_named_generated_packages")
	}

	// initial disk state: nothing, or the output of an identity run
	prefilled := vt.Bool()
	if prefilled {
		r := runGoderive(ctx.bins.inst, filepath.Join(base, sub), append(append([]string{}, flags...), "./..."), &Plan{MapMode: "identity"}, 0, envFor(base)...)
		res.count(r)
		if m := noCrash(r); m != "" {
			res.SawPanic = true
		}
	}
	n := 5 + vt.Intn(5)
	type outcome struct {
		desc   string
		exit   int
		hashes map[string]string
		stderr string
	}
	var outs []outcome
	var descs []string
	for i := 0; i < n; i++ {
		var plan *Plan
		var inv invocation
		gmp := 0
		if i == 0 {
			plan = &Plan{MapMode: "identity"}
			inv = invocation{Cwd: ".", Args: []string{"./p"}, Pkgs: []string{"p"}}
		} else {
			plan = drawPlan(vt)
			inv = drawInvocation(vt, w)
			gmp = []int{0, 1, 4, 16}[vt.Intn(4)]
		}
		vd := filepath.Join(dir, fmt.Sprintf("v%d", i))
		if err := copyTree(base, vd, nil); err != nil {
			harnessTrouble("copy world: %v", err)
		}
		r := runGoderive(ctx.bins.inst, filepath.Join(vd, sub, inv.Cwd), append(append([]string{}, flags...), inv.Args...), plan, gmp, envFor(vd)...)
		res.count(r)
		if m := noCrash(r); m != "" {
			res.SawPanic = true
		}
		o := outcome{desc: fmt.Sprintf("cwd=%s args=%v map=%s/%d pkgorder=%d gomaxprocs=%d", inv.Cwd, inv.Args, plan.MapMode, plan.MapSeed, plan.PkgOrder, gmp), exit: r.Exit, hashes: map[string]string{}, stderr: r.Stderr}
		for _, pk := range inv.Pkgs {
			o.hashes[pk] = fileHash(filepath.Join(vd, sub, pk, "derived.gen.go"))
		}
		if len(inv.Pkgs) > 1 {
			res.probe("variant.multi_package")
		}
		if plan.MapMode != "identity" {
			res.probe("variant.map_" + plan.MapMode)
		}
		outs = append(outs, o)
		descs = append(descs, o.desc)
		// keep the first and any differing output for the report
		if i > 0 {
			for _, pk := range sortedKeysStr(o.hashes) {
				ref := ""
				refDesc := ""
				for _, prev := range outs[:i] {
					if h, ok := prev.hashes[pk]; ok {
						ref, refDesc = h, prev.desc
						break
					}
				}
				if ref != "" && ref != o.hashes[pk] && res.V == nil {
					a, _ := os.ReadFile(filepath.Join(dir, "v0", sub, pk, "derived.gen.go"))
					b, _ := os.ReadFile(filepath.Join(vd, sub, pk, "derived.gen.go"))
					d := firstDiff(string(a), string(b))
					res.V = &genViolation{Clause: "bytes-differ", Detail: fmt.Sprintf("package %s: derived.gen.go differs between [%s] (%s) and [%s] (%s, exit %d): %s", pk, refDesc, ref, o.desc, o.hashes[pk], o.exit, d),
						Facts: map[string]string{"diff": d, "sources": joinFiles(userSources(files)), "variant_a": refDesc, "variant_b": o.desc, "stderr": o.stderr}}
				}
			}
		}
		if i > 0 {
			os.RemoveAll(vd)
		}
		if res.V != nil {
			break
		}
	}
	res.Sample["variants"] = descs
	res.Sample["prefilled"] = prefilled
	res.Sample["gopath_mode"] = gopath
	if gopath {
		res.probe("world.gopath_mode")
	}
	res.Hash = worldHash(files, strings.Join(descs, ";"))
	res.Nontrivial = len(w.Calls)+len(w.QCalls) >= 3 || w.HasQ || w.HasExt || prof.NamedComposite
	return res
}

// firstDiff describes the first differing line of two texts.
func firstDiff(a, b string) string {
	la, lb := strings.Split(a, "\n"), strings.Split(b, "\n")
	for i := 0; i < len(la) || i < len(lb); i++ {
		var x, y string
		if i < len(la) {
			x = la[i]
		}
		if i < len(lb) {
			y = lb[i]
		}
		if x != y {
			return fmt.Sprintf("line %d: %q vs %q (lengths %d / %d bytes)", i+1, x, y, len(a), len(b))
		}
	}
	return "identical"
}
