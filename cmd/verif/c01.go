package main

import (
	"crypto/sha256"
	"encoding/hex"
	"fmt"
	"os"
	"path/filepath"
	"strings"
	"time"

	"verif/internal/world"
	"verif/tape"
)

func init() {
	checks["C01"] = func(o checkOpts) int {
		return runGenCheck(o, "exploration",
			genBudget{cases: 1200, wall: 90 * time.Second, shrinkN: 40, shrinkT: 60 * time.Second},
			genBudget{cases: 6000, wall: 25 * time.Minute, shrinkN: 200, shrinkT: 8 * time.Minute},
			"one case = one generated module (1-6 named types over the supported grammar, 1-8 derive calls from all plugins in the call-site forms of the statement) executed fault-free under a tape-chosen map-iteration plan (identity/reverse/rotate/random), package order and GOMAXPROCS; clauses: exit 0, no panic, package + tests type-check with derived.gen.go, file gofmt-clean; distinct = distinct hash of (world sources, plan); non-trivial = at least 2 derive calls or a nested / imported / test-file call",
			[]string{"the workload generator emits only call shapes the Readme / plugin documentation list as supported (DESIGN.md appendix A); a shape outside what it draws is not covered"})
	}
	genCases["C01"] = c01Case
	genDirected["C01"] = func(ctx *genCtx, in *DirectedInput, dir string) *genViolation {
		writeWorld(dir, in.Versions[0])
		args := in.Args
		if len(args) == 0 {
			args = []string{"./p"}
		}
		_, v := c01Oracle(ctx, dir, in.Versions[0], in.Flags, args, &Plan{MapMode: "identity"}, 0)
		return v
	}
}

func drawPlan(t *tape.Tape) *Plan {
	p := &Plan{MapMode: []string{"identity", "reverse", "random", "rotate"}[t.Intn(4)]}
	if p.MapMode == "random" || p.MapMode == "rotate" {
		p.MapSeed = uint64(1 + t.Intn(1<<20))
	}
	if t.Bool() {
		p.PkgOrder = uint64(1 + t.Intn(1<<16))
	}
	return p
}

func worldHash(files map[string]string, extra ...string) string {
	h := sha256.New()
	for _, k := range sortedKeysStr(files) {
		h.Write([]byte(k))
		h.Write([]byte{0})
		h.Write([]byte(files[k]))
		h.Write([]byte{0})
	}
	for _, e := range extra {
		h.Write([]byte(e))
		h.Write([]byte{0})
	}
	return hex.EncodeToString(h.Sum(nil)[:10])
}

func drawProfile(t *tape.Tape, tier string) world.Profile {
	depth := 1 + t.Intn(2)
	if tier == "thorough" {
		depth = 1 + t.Intn(3)
	}
	p := world.FullProfile(depth)
	// swarm: switch features off per case
	p.NamedComposite = t.Bool()
	p.Ext = t.Bool()
	p.Q = t.Bool()
	p.Nested = t.Intn(3) > 0
	p.TestFile = t.Bool()
	p.Forms = t.Bool()
	p.Curried = t.Bool()
	p.Unformatted = t.Bool()
	p.UserFuncs = t.Bool()
	p.Concurrency = t.Bool()
	p.FuncParamForms = false // C09's profile exercises unnamed / blank / generator-like parameter names
	p.Force = t.Intn(6) == 0
	p.MaxDecls = 1 + t.Intn(6)
	p.MaxCalls = 1 + t.Intn(8)
	return p
}

func worldPkgs(w *world.World) []string {
	ps := []string{"./p"}
	if w.HasQ {
		ps = append(ps, "./q")
	}
	if w.Twin > 0 {
		ps = append(ps, "./twin/p")
	}
	return ps
}

func userSources(files map[string]string) map[string]string {
	out := map[string]string{}
	for _, k := range sortedKeysStr(files) {
		if strings.HasSuffix(k, ".go") {
			out[k] = files[k]
		}
	}
	return out
}

func c01Case(ctx *genCtx, ts *tape.Set, dir string) *genResult {
	prof := drawProfile(ts.Fork("profile"), ctx.tier)
	prof.Twin = ts.Fork("twin").Chance(1, 6)
	w := world.Generate(ts.Fork("world"), prof)
	plan := drawPlan(ts.Fork("plan"))
	gmp := []int{0, 1, 4, 16}[ts.Fork("plan").Intn(4)]
	files := w.Render()
	writeWorld(dir, files)
	res := &genResult{Sample: map[string]any{"files": userSources(files), "plan": plan, "gomaxprocs": gmp, "args": worldPkgs(w)}}
	if probs := userSourceProblems(dir, w, worldPkgs(w)...); len(probs) > 0 {
		res.probe("world.invalid_discarded")
		res.Sample["invalid_world"] = probs
		if os.Getenv("VERIF_SHOW_INVALID") != "" {
			fmt.Fprintf(os.Stderr, "invalid world (case discarded): %v\n%s\n", probs, joinFiles(userSources(files)))
		}
		return res
	}
	res.Hash = worldHash(files, fmt.Sprint(*plan))
	ncalls := len(w.Calls) + len(w.QCalls)
	res.Nontrivial = ncalls >= 2 || w.HasExt || w.HasQ
	r, v := c01Oracle(ctx, dir, files, nil, worldPkgs(w), plan, gmp)
	res.count(r)
	if strings.Contains(r.Stderr, "could not yet generate") {
		res.probe("reload_pass_2")
	}
	if w.HasExt {
		res.probe("world.imported_same_named_packages")
	}
	if w.HasQ {
		res.probe("world.two_packages")
	}
	if w.Twin > 0 {
		res.probe("world.same_named_generated_packages")
	}
	if r.NotGofmt {
		res.probe("output_not_gofmt_clean")
	}
	if v != nil && v.Clause == "crash" {
		res.SawPanic = true
	}
	res.V = v
	return res
}

// c01Oracle: one fault-free execution on files already written to dir.
func c01Oracle(ctx *genCtx, dir string, files map[string]string, flags, pkgs []string, plan *Plan, gmp int) (*genRun, *genViolation) {
	r := runGoderive(ctx.bins.inst, dir, append(append([]string{}, flags...), pkgs...), plan, gmp)
	facts := map[string]string{"stderr": r.Stderr, "sources": joinFiles(userSources(files)), "typeerrors": ""}
	if m := noCrash(r); m != "" {
		return r, &genViolation{Clause: "crash", Detail: m, Facts: facts}
	}
	if r.Exit != 0 {
		return r, &genViolation{Clause: "rejected-supported", Detail: "goderive exit " + fmt.Sprint(r.Exit) + ": " + firstLines(r.Stderr, 3), Facts: facts}
	}
	if errs := typecheck(dir, pkgs...); len(errs) > 0 {
		facts["typeerrors"] = strings.Join(errs, "\n")
		return r, &genViolation{Clause: "not-typecheck", Detail: strings.Join(errs, " | "), Facts: facts}
	}
	// gofmt-cleanliness of the output is not part of the statement: observed as a probe only
	for _, rel := range sortedKeysStr(derivedFiles(dir)) {
		if m := gofmtClean(filepath.Join(dir, rel)); m != "" {
			r.NotGofmt = true
		}
	}
	return r, nil
}

func joinFiles(files map[string]string) string {
	var sb strings.Builder
	for _, k := range sortedKeysStr(files) {
		sb.WriteString("== " + k + "\n" + files[k] + "\n")
	}
	return sb.String()
}
