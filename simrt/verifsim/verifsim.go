// Package verifsim is injected (by `verif instrument`) into a scratch copy of
// goderive. It is the seam through which the simulator owns what goderive's
// behaviour may legally depend on besides its input text: Go map iteration
// order, the order of loader.InitialPackages, plugin registration order and
// the file system (I/O errors, short writes, crashes at chosen operations).
// With no VERIF_PLAN set every choice is the canonical one (sorted map order,
// no fault), and nothing is traced.
package verifsim

import (
	"encoding/json"
	"fmt"
	"go/build"
	"io"
	"log"
	"os"
	"sort"
	"strings"
	"sync"
	"syscall"
	"time"

	"golang.org/x/tools/go/loader"
)

type Fault struct {
	Kind  string `json:"kind"`  // crash-before | crash-in-write | short-write | err
	Op    int    `json:"op"`    // index of the mutating operation
	K     int    `json:"k"`     // bytes that reach the file (crash-in-write, short-write)
	Errno string `json:"errno"` // EIO | EACCES | EROFS | ENOSPC
	Path  string `json:"path"`  // read-err: suffix of the source file whose n-th open fails
	Nth   int    `json:"nth"`
}

type Plan struct {
	MapMode     string  `json:"map_mode"` // identity | reverse | rotate | random
	MapSeed     uint64  `json:"map_seed"`
	PkgOrder    uint64  `json:"pkg_order_seed"`    // 0 = canonical
	PluginOrder uint64  `json:"plugin_order_seed"` // 0 = as registered
	Faults      []Fault `json:"faults"`
}

var (
	plan     Plan
	havePlan bool
	trace    *os.File
	mu       sync.Mutex
	siteCnt  = map[string]int{}
	opIdx    int
)

func init() {
	if p := os.Getenv("VERIF_PLAN"); p != "" {
		b, err := os.ReadFile(p)
		if err != nil {
			fmt.Fprintln(os.Stderr, "verifsim: cannot read plan:", err)
			os.Exit(99)
		}
		if err := json.Unmarshal(b, &plan); err != nil {
			fmt.Fprintln(os.Stderr, "verifsim: bad plan:", err)
			os.Exit(99)
		}
		havePlan = true
	}
	if plan.MapMode == "" {
		plan.MapMode = "identity"
	}
	if t := os.Getenv("VERIF_TRACE"); t != "" {
		f, err := os.OpenFile(t, os.O_CREATE|os.O_WRONLY|os.O_APPEND, 0o644)
		if err == nil {
			trace = f
		}
	}
}

func tracef(format string, a ...any) {
	if trace != nil {
		fmt.Fprintf(trace, format+"\n", a...)
	}
}

type sm64 struct{ s uint64 }

func (r *sm64) next() uint64 {
	r.s += 0x9e3779b97f4a7c15
	z := r.s
	z = (z ^ (z >> 30)) * 0xbf58476d1ce4e5b9
	z = (z ^ (z >> 27)) * 0x94d049bb133111eb
	return z ^ (z >> 31)
}

func hashS(s string) uint64 {
	h := uint64(1469598103934665603)
	for i := 0; i < len(s); i++ {
		h ^= uint64(s[i])
		h *= 1099511628211
	}
	return h
}

func permute(n int, mode string, seed uint64, site string, cnt int) []int {
	idx := make([]int, n)
	for i := range idx {
		idx[i] = i
	}
	switch mode {
	case "reverse":
		for i, j := 0, n-1; i < j; i, j = i+1, j-1 {
			idx[i], idx[j] = idx[j], idx[i]
		}
	case "rotate":
		if n > 0 {
			k := int((seed + uint64(cnt)) % uint64(n))
			idx = append(idx[k:], idx[:k]...)
		}
	case "random":
		r := sm64{seed ^ hashS(site)*31 ^ uint64(cnt)*0x9e3779b97f4a7c15}
		for i := n - 1; i > 0; i-- {
			j := int(r.next() % uint64(i+1))
			idx[i], idx[j] = idx[j], idx[i]
		}
	}
	return idx
}

// Keys returns the keys of m in the order the plan dictates. Any order is a
// legal behaviour of `range m`, so no alarm can come from the choice itself.
func Keys[K comparable, V any](m map[K]V, site string) []K {
	keys := make([]K, 0, len(m))
	for k := range m {
		keys = append(keys, k)
	}
	controlled := true
	sort.Slice(keys, func(i, j int) bool {
		a, b := any(keys[i]), any(keys[j])
		switch x := a.(type) {
		case string:
			return x < b.(string)
		case int:
			return x < b.(int)
		case int64:
			return x < b.(int64)
		case uint64:
			return x < b.(uint64)
		case uint:
			return x < b.(uint)
		case int32:
			return x < b.(int32)
		case bool:
			return !x && b.(bool)
		}
		if sa, ok := a.(fmt.Stringer); ok {
			return sa.String() < b.(fmt.Stringer).String()
		}
		controlled = false
		return false
	})
	mu.Lock()
	cnt := siteCnt[site]
	siteCnt[site]++
	mu.Unlock()
	if !controlled {
		tracef("map %s #%d n=%d UNCONTROLLED-KEY-TYPE", site, cnt, len(keys))
		return keys
	}
	p := permute(len(keys), plan.MapMode, plan.MapSeed, site, cnt)
	out := make([]K, len(keys))
	for i, j := range p {
		out[i] = keys[j]
	}
	if len(keys) > 1 {
		tracef("map %s #%d n=%d order=%v", site, cnt, len(keys), fmtKeys(out))
	}
	return out
}

func fmtKeys[K any](ks []K) string {
	ss := make([]string, len(ks))
	for i, k := range ks {
		ss[i] = fmt.Sprint(k)
	}
	return "[" + strings.Join(ss, ",") + "]"
}

// PkgOrder canonicalises (sort by path) and then permutes the part of
// InitialPackages that the loader fills by ranging over a map (everything
// after the first nCreated entries).
func PkgOrder(xs []*loader.PackageInfo, nCreated int) []*loader.PackageInfo {
	if nCreated > len(xs) {
		nCreated = len(xs)
	}
	out := append([]*loader.PackageInfo(nil), xs...)
	suf := out[nCreated:]
	sort.SliceStable(suf, func(i, j int) bool { return suf[i].Pkg.Path() < suf[j].Pkg.Path() })
	if plan.PkgOrder != 0 && len(suf) > 1 {
		p := permute(len(suf), "random", plan.PkgOrder, "pkgorder", 0)
		tmp := append([]*loader.PackageInfo(nil), suf...)
		for i, j := range p {
			suf[i] = tmp[j]
		}
	}
	if len(out) > 1 {
		ss := make([]string, len(out))
		for i, p := range out {
			ss[i] = p.Pkg.Path()
		}
		tracef("pkgorder created=%d order=%v", nCreated, ss)
	}
	return out
}

// Shuffle permutes a registration list (plugins) when the plan says so.
func Shuffle[T any](xs []T) []T {
	if plan.PluginOrder == 0 || len(xs) < 2 {
		return xs
	}
	p := permute(len(xs), "random", plan.PluginOrder, "plugins", 0)
	out := make([]T, len(xs))
	for i, j := range p {
		out[i] = xs[j]
	}
	tracef("pluginorder %v", p)
	return out
}

// InstallBuildHooks is called first thing in main. When the plan contains
// read faults it routes go/build's (and the loader's) file opens through
// build.Default.OpenFile. Setting that callback makes go/build give up module
// resolution, so read faults are only planned for GOPATH-mode worlds; without
// read faults nothing is installed.
func InstallBuildHooks() {
	var reads []*Fault
	for i := range plan.Faults {
		if plan.Faults[i].Kind == "read-err" {
			reads = append(reads, &plan.Faults[i])
		}
	}
	if len(reads) == 0 {
		return
	}
	var rmu sync.Mutex
	opens := map[string]int{}
	build.Default.OpenFile = func(path string) (io.ReadCloser, error) {
		rmu.Lock()
		n := opens[path]
		opens[path]++
		rmu.Unlock()
		for _, f := range reads {
			if strings.HasSuffix(path, f.Path) && n == f.Nth {
				mu.Lock()
				tracef("fault read-err %s open #%d", f.Path, n)
				mu.Unlock()
				e, ok := errnos[f.Errno]
				if !ok {
					e = syscall.EIO
				}
				return nil, &os.PathError{Op: "open", Path: path, Err: e}
			}
		}
		return os.Open(path)
	}
}

// ------------------------------------------------------------------ files

var errnos = map[string]syscall.Errno{"EIO": syscall.EIO, "EACCES": syscall.EACCES, "EROFS": syscall.EROFS, "ENOSPC": syscall.ENOSPC}

// nextOp assigns the index of a mutating operation and returns the fault
// planned for it, if any. Crashes are executed here.
var stalled = map[string]bool{}

func nextOp(kind, path string, n int) *Fault {
	mu.Lock()
	i := opIdx
	opIdx++
	mu.Unlock()
	tracef("op %d %s %s %d", i, kind, path, n)
	for k := range plan.Faults {
		f := &plan.Faults[k]
		if f.Kind == "stall" {
			// a slow disk: the calling goroutine is held for K milliseconds inside the operation, which then
			// proceeds normally. Op < 0: every write to a file other than derived.gen.go (the user's sources).
			hit := f.Op == i
			if f.Op < 0 && kind == "write" && !strings.HasSuffix(path, "derived.gen.go") {
				// once per file (its first write): a printer writes a file in many small pieces
				mu.Lock()
				if !stalled[path] {
					stalled[path] = true
					hit = true
				}
				mu.Unlock()
			}
			if hit {
				tracef("fault stall op %d %dms", i, f.K)
				time.Sleep(time.Duration(f.K) * time.Millisecond)
			}
			continue
		}
		if f.Op != i {
			continue
		}
		switch f.Kind {
		case "crash-before":
			tracef("fault crash-before op %d", i)
			crash()
		case "crash-in-write", "short-write":
			if kind == "write" {
				return f
			}
			if f.Kind == "crash-in-write" {
				tracef("fault crash-before op %d (not a write)", i)
				crash()
			}
			return &Fault{Kind: "err", Op: i, Errno: f.Errno}
		case "err":
			return f
		}
	}
	return nil
}

func crash() {
	if trace != nil {
		trace.Sync()
	}
	os.Exit(137)
}

func errOf(f *Fault, op, path string) error {
	e, ok := errnos[f.Errno]
	if !ok {
		e = syscall.EIO
	}
	tracef("fault err %s op %d", f.Errno, f.Op)
	return &os.PathError{Op: op, Path: path, Err: e}
}

// File stands in for *os.File; every method that touches the disk is explicit.
type File struct {
	f        *os.File
	path     string
	writable bool
}

func wrap(f *os.File, err error, path string, writable bool) (*File, error) {
	if err != nil {
		return nil, err
	}
	return &File{f: f, path: path, writable: writable}, nil
}

func Create(name string) (*File, error) {
	if f := nextOp("create", name, 0); f != nil {
		return nil, errOf(f, "open", name)
	}
	of, err := os.Create(name)
	return wrap(of, err, name, true)
}

func OpenFile(name string, flag int, perm os.FileMode) (*File, error) {
	w := flag&(os.O_WRONLY|os.O_RDWR|os.O_APPEND|os.O_CREATE|os.O_TRUNC) != 0
	if w {
		if f := nextOp("openfile", name, flag); f != nil {
			return nil, errOf(f, "open", name)
		}
	}
	of, err := os.OpenFile(name, flag, perm)
	return wrap(of, err, name, w)
}

func Open(name string) (*File, error) {
	of, err := os.Open(name)
	return wrap(of, err, name, false)
}

func (f *File) Write(b []byte) (int, error) {
	if ft := nextOp("write", f.path, len(b)); ft != nil {
		switch ft.Kind {
		case "crash-in-write":
			k := ft.K
			if k > len(b) {
				k = len(b)
			}
			f.f.Write(b[:k])
			tracef("fault crash-in-write op %d after %d of %d bytes", ft.Op, k, len(b))
			crash()
		case "short-write":
			k := ft.K
			if k > len(b) {
				k = len(b)
			}
			n, _ := f.f.Write(b[:k])
			tracef("fault short-write op %d %d of %d bytes", ft.Op, n, len(b))
			e, ok := errnos[ft.Errno]
			if !ok {
				e = syscall.ENOSPC
			}
			return n, &os.PathError{Op: "write", Path: f.path, Err: e}
		default:
			return 0, errOf(ft, "write", f.path)
		}
	}
	return f.f.Write(b)
}

func (f *File) WriteString(s string) (int, error) { return f.Write([]byte(s)) }

func (f *File) WriteAt(b []byte, off int64) (int, error) {
	if ft := nextOp("writeat", f.path, len(b)); ft != nil {
		return 0, errOf(ft, "write", f.path)
	}
	return f.f.WriteAt(b, off)
}

func (f *File) Read(b []byte) (int, error)                { return f.f.Read(b) }
func (f *File) ReadAt(b []byte, off int64) (int, error)   { return f.f.ReadAt(b, off) }
func (f *File) Seek(off int64, whence int) (int64, error) { return f.f.Seek(off, whence) }
func (f *File) Name() string                              { return f.f.Name() }
func (f *File) Stat() (os.FileInfo, error)                { return f.f.Stat() }

func (f *File) Close() error {
	if f.writable {
		if ft := nextOp("close", f.path, 0); ft != nil {
			f.f.Close()
			return errOf(ft, "close", f.path)
		}
	}
	return f.f.Close()
}

func (f *File) Sync() error {
	if ft := nextOp("sync", f.path, 0); ft != nil {
		return errOf(ft, "sync", f.path)
	}
	return f.f.Sync()
}

func (f *File) Truncate(size int64) error {
	if ft := nextOp("truncate", f.path, int(size)); ft != nil {
		return errOf(ft, "truncate", f.path)
	}
	return f.f.Truncate(size)
}

func (f *File) Chmod(m os.FileMode) error {
	if ft := nextOp("chmod", f.path, int(m)); ft != nil {
		return errOf(ft, "chmod", f.path)
	}
	return f.f.Chmod(m)
}

func Remove(name string) error {
	if f := nextOp("remove", name, 0); f != nil {
		return errOf(f, "remove", name)
	}
	return os.Remove(name)
}

func RemoveAll(name string) error {
	if f := nextOp("removeall", name, 0); f != nil {
		return errOf(f, "removeall", name)
	}
	return os.RemoveAll(name)
}

func Rename(a, b string) error {
	if f := nextOp("rename", a+"->"+b, 0); f != nil {
		return errOf(f, "rename", a)
	}
	return os.Rename(a, b)
}

func Mkdir(name string, perm os.FileMode) error {
	if f := nextOp("mkdir", name, 0); f != nil {
		return errOf(f, "mkdir", name)
	}
	return os.Mkdir(name, perm)
}

func MkdirAll(name string, perm os.FileMode) error {
	if f := nextOp("mkdirall", name, 0); f != nil {
		return errOf(f, "mkdir", name)
	}
	return os.MkdirAll(name, perm)
}

func WriteFile(name string, data []byte, perm os.FileMode) error {
	f, err := OpenFile(name, os.O_WRONLY|os.O_CREATE|os.O_TRUNC, perm)
	if err != nil {
		return err
	}
	_, err = f.Write(data)
	if err1 := f.Close(); err1 != nil && err == nil {
		err = err1
	}
	return err
}

func ReadFile(name string) ([]byte, error) { return os.ReadFile(name) }

func Truncate(name string, size int64) error {
	if f := nextOp("truncate", name, int(size)); f != nil {
		return errOf(f, "truncate", name)
	}
	return os.Truncate(name, size)
}

func Chmod(name string, m os.FileMode) error {
	if f := nextOp("chmod", name, int(m)); f != nil {
		return errOf(f, "chmod", name)
	}
	return os.Chmod(name, m)
}

func Symlink(a, b string) error {
	if f := nextOp("symlink", b, 0); f != nil {
		return errOf(f, "symlink", b)
	}
	return os.Symlink(a, b)
}

func Link(a, b string) error {
	if f := nextOp("link", b, 0); f != nil {
		return errOf(f, "link", b)
	}
	return os.Link(a, b)
}

func CreateTemp(dir, pattern string) (*File, error) {
	if f := nextOp("createtemp", dir+"/"+pattern, 0); f != nil {
		return nil, errOf(f, "open", dir)
	}
	of, err := os.CreateTemp(dir, pattern)
	if err != nil {
		return nil, err
	}
	return wrap(of, nil, of.Name(), true)
}

// ---- process exit -------------------------------------------------------------

// exitDelay holds the process for the planned time before it ends (fault kind
// "exit-delay"): a process does not vanish the instant its main goroutine
// decides to exit, and work that was started in the background and is not
// waited for gets to run in that window. Together with "stall" (a slow write)
// this makes "exits while a file is half written" a reproducible state.
func exitDelay() {
	for i := range plan.Faults {
		if f := &plan.Faults[i]; f.Kind == "exit-delay" {
			tracef("fault exit-delay %dms", f.K)
			time.Sleep(time.Duration(f.K) * time.Millisecond)
			return
		}
	}
}

// AtExit is deferred at the top of main (successful return).
func AtExit() { exitDelay() }

// Exit stands in for os.Exit.
func Exit(code int) {
	exitDelay()
	if trace != nil {
		trace.Sync()
	}
	os.Exit(code)
}

// Fatal, Fatalf, Fatalln stand in for the log package's functions of that name.
func Fatal(v ...any) {
	log.Output(2, fmt.Sprint(v...))
	Exit(1)
}

func Fatalf(format string, v ...any) {
	log.Output(2, fmt.Sprintf(format, v...))
	Exit(1)
}

func Fatalln(v ...any) {
	log.Output(2, fmt.Sprintln(v...))
	Exit(1)
}
