#!/bin/bash
# Offline build of the verification framework from files on disk only.
set -e
cd "$(dirname "$0")"
. ./env.sh
mkdir -p bin evidence replays
go build -o bin/verif ./cmd/verif
go vet ./tape ./chansim/... ./internal/... >/dev/null 2>&1 || true
echo "setup ok: $(bin/verif version 2>/dev/null || echo verif built)"
