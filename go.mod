module verif

go 1.24

require golang.org/x/tools v0.29.0
