package main

import (
	"errors"
	"fmt"

	. "verif/chansim"
	"verif/tape"

	"harness/t/compose3"
)

// C16 under concurrent callers: one composed function value is called from
// 2-3 tasks at once, every stage has scheduling points inside, some calls
// fail at a drawn stage. Each call must still see its own values handed from
// stage to stage, stop at its own first failure and return its own error; the
// composed function must not share unsynchronised state between calls (race).
func init() {
	scenarios = append(scenarios, scenario{name: "compose-concurrent-callers", prop: "C16", run: func(ts *tape.Set, trace bool) *Outcome {
		cf := ts.Fork("cfg")
		n := 2 + cf.Intn(2)
		failAt := make([]int, n) // 0 = none, 1..3 = stage that fails
		yields := make([][3]int, n)
		ft := ts.Fork("faults")
		for i := range failAt {
			if ft.Intn(3) == 0 {
				failAt[i] = 1 + ft.Intn(3)
			}
			for k := 0; k < 3; k++ {
				yields[i][k] = cf.Intn(3)
			}
		}
		s := New(simConfig(cf, 40+20*n, trace), ts.Fork("sched"))
		o := &Outcome{Decoded: map[string]any{"callers": n, "fail_at_stage": failAt, "yields": yields}}
		errs := make([]error, n)
		for i := range errs {
			errs[i] = errors.New(fmt.Sprintf("call %d failed", i))
		}
		type res struct {
			a   [2]int
			p   *compose3.S
			err error
			log []string
			ok  bool
		}
		out := make([]res, n)
		f := s.Run(func() {
			// the argument x identifies the call: stages are pure functions of their inputs
			// plus the per-call plan, looked up through x
			f0 := func(x int) (string, int, error) {
				out[x].log = append(out[x].log, fmt.Sprintf("f0(%d)", x))
				for y := 0; y < yields[x][0]; y++ {
					Yield()
				}
				if failAt[x] == 1 {
					return "partial", -1, errs[x]
				}
				return fmt.Sprintf("s%d", x), 10 * x, nil
			}
			f1 := func(a string, b int) (compose3.S, error) {
				x := b / 10
				if b < 0 || b%10 != 0 || x >= n || a != fmt.Sprintf("s%d", x) {
					s.Fail("wrong-value-passed-on", fmt.Sprintf("stage 1 was called with (%q, %d): not what stage 0 returned for any one call", a, b))
					return compose3.S{}, nil
				}
				out[x].log = append(out[x].log, fmt.Sprintf("f1(%s,%d)", a, b))
				for y := 0; y < yields[x][1]; y++ {
					Yield()
				}
				if failAt[x] == 2 {
					return compose3.S{A: -5, B: "partial"}, errs[x]
				}
				return compose3.S{A: x, B: a}, nil
			}
			f2 := func(v compose3.S) ([2]int, *compose3.S, error) {
				x := v.A
				if x < 0 || x >= n || v.B != fmt.Sprintf("s%d", x) {
					s.Fail("wrong-value-passed-on", fmt.Sprintf("stage 2 was called with %+v: not what stage 1 returned for any one call", v))
					return [2]int{}, nil, nil
				}
				out[x].log = append(out[x].log, fmt.Sprintf("f2(%d,%s)", v.A, v.B))
				for y := 0; y < yields[x][2]; y++ {
					Yield()
				}
				if failAt[x] == 3 {
					return [2]int{7, 7}, &compose3.S{A: 99}, errs[x]
				}
				return [2]int{x, x + 1}, &compose3.S{A: x, B: "done"}, nil
			}
			composed := compose3.Compose(f0, f1, f2)
			done := Named(Make[int](n), "done")
			for i := 0; i < n; i++ {
				i := i
				Go(func() {
					a, p, err := composed(i)
					out[i] = res{a: a, p: p, err: err, log: out[i].log, ok: true}
					Send(done, i)
				})
			}
			for i := 0; i < n; i++ {
				Recv(done)
			}
			for i := 0; i < n; i++ {
				r := out[i]
				wantLog := []string{fmt.Sprintf("f0(%d)", i), fmt.Sprintf("f1(s%d,%d)", i, 10*i), fmt.Sprintf("f2(%d,s%d)", i, i)}
				if failAt[i] > 0 {
					wantLog = wantLog[:failAt[i]]
				}
				if fmt.Sprint(r.log) != fmt.Sprint(wantLog) {
					s.Fail("wrong-stage-calls", fmt.Sprintf("call %d: stages called %v, want %v", i, r.log, wantLog))
					return
				}
				if failAt[i] > 0 {
					if r.err != errs[i] || r.a != [2]int{} || r.p != nil {
						s.Fail("wrong-result", fmt.Sprintf("call %d fails at stage %d: got (%v, %v, %v), want zero values and its own error", i, failAt[i], r.a, r.p, r.err))
						return
					}
					continue
				}
				if r.err != nil || r.a != [2]int{i, i + 1} || r.p == nil || r.p.A != i || r.p.B != "done" {
					s.Fail("wrong-result", fmt.Sprintf("call %d: got (%v, %+v, %v)", i, r.a, r.p, r.err))
					return
				}
			}
		})
		finish(s, f, o)
		for _, fl := range failAt {
			if fl > 0 {
				o.Probes["compose.stage_failure_injected"]++
			}
		}
		return o
	}})
}
