package main

import (
	"errors"
	"fmt"

	. "verif/chansim"
	"verif/tape"

	"harness/t/do2"
	"harness/t/do3"
	"harness/t/do3s"
	"harness/t/do4"
	"harness/t/do4s"
)

// doPlan is the drawn configuration of one C20 run.
type doPlan struct {
	n      int
	pairs  [][2]int // rendezvous pairs (sender, receiver), performed by every function in this global order
	yields []int    // extra scheduling points before returning
	fails  []bool
}

func drawDoPlan(cf, faults *tape.Tape, n int) *doPlan {
	p := &doPlan{n: n, yields: make([]int, n), fails: make([]bool, n)}
	np := cf.Intn(n + 1)
	for k := 0; k < np; k++ {
		a := cf.Intn(n)
		b := cf.Intn(n - 1)
		if b >= a {
			b++
		}
		p.pairs = append(p.pairs, [2]int{a, b})
	}
	for i := 0; i < n; i++ {
		p.yields[i] = cf.Intn(3)
	}
	// fault injection: which functions fail
	if faults.Intn(3) > 0 {
		for i := 0; i < n; i++ {
			p.fails[i] = faults.Bool()
		}
	}
	return p
}

type doRun struct {
	p        *doPlan
	chans    []*Chan[int]
	returned []bool
	errs     []error
	started  []bool
}

func newDoRun(p *doPlan) *doRun {
	r := &doRun{p: p, returned: make([]bool, p.n), errs: make([]error, p.n), started: make([]bool, p.n)}
	for i := 0; i < p.n; i++ {
		if p.fails[i] {
			r.errs[i] = errors.New(fmt.Sprintf("f%d failed", i))
		}
	}
	return r
}

// body is what every argument function does before returning its result.
func (r *doRun) body(i int) error {
	r.started[i] = true
	for k, pr := range r.p.pairs {
		if pr[0] == i {
			Send(r.chans[k], i)
		} else if pr[1] == i {
			Recv(r.chans[k])
		}
	}
	for y := 0; y < r.p.yields[i]; y++ {
		Yield()
	}
	r.returned[i] = true
	return r.errs[i]
}

func (r *doRun) setup() {
	for k := range r.p.pairs {
		r.chans = append(r.chans, Named(Make[int](0), fmt.Sprintf("rv%d", k)))
	}
}

func (r *doRun) checkReturn(s *Sim, err error) {
	for i, ok := range r.returned {
		if !ok {
			s.Fail("returned-early", fmt.Sprintf("Do returned before f%d had returned (started=%v)", i, r.started[i]))
			return
		}
	}
	any := false
	match := false
	for i := range r.errs {
		if r.errs[i] != nil {
			any = true
			if err == r.errs[i] {
				match = true
			}
		}
	}
	if !any && err != nil {
		s.Fail("wrong-error", fmt.Sprintf("all functions succeeded but Do returned error %v", err))
	} else if any && err == nil {
		s.Fail("wrong-error", "a function failed but Do returned a nil error")
	} else if any && !match {
		s.Fail("wrong-error", fmt.Sprintf("Do returned error %v, which no function returned", err))
	}
}

func (p *doPlan) decoded() map[string]any {
	return map[string]any{"n": p.n, "rendezvous": p.pairs, "yields": p.yields, "fails": p.fails}
}

func init() {
	reg := func(name string, n int, call func(r *doRun, s *Sim)) {
		scenarios = append(scenarios, scenario{name: name, prop: "C20", run: func(ts *tape.Set, trace bool) *Outcome {
			cf := ts.Fork("cfg")
			p := drawDoPlan(cf, ts.Fork("faults"), n)
			s := New(simConfig(cf, 30+10*n+4*len(p.pairs), trace), ts.Fork("sched"))
			r := newDoRun(p)
			o := &Outcome{Decoded: p.decoded()}
			f := s.Run(func() {
				r.setup()
				call(r, s)
			})
			finish(s, f, o)
			for _, fl := range p.fails {
				if fl {
					o.Probes["do.fault_injected"]++
				}
			}
			return o
		}})
	}
	reg("do-2", 2, func(r *doRun, s *Sim) {
		a, b, err := do2.Do(
			func() (int, error) { e := r.body(0); return 11, e },
			func() (string, error) { e := r.body(1); return "v1", e },
		)
		r.checkReturn(s, err)
		if a != 11 || b != "v1" {
			s.Fail("wrong-value", fmt.Sprintf("got (%v,%v)", a, b))
		}
	})
	// two callers use the same derived Do at the same time, and one call is nested in an argument
	// function of another: state shared between calls of one derived function shows only then
	scenarios = append(scenarios, scenario{name: "do-2-overlapping-calls", prop: "C20", run: func(ts *tape.Set, trace bool) *Outcome {
		cf := ts.Fork("cfg")
		p1 := drawDoPlan(cf, ts.Fork("faults"), 2)
		p2 := drawDoPlan(cf, ts.Fork("faults2"), 2)
		nested := cf.Intn(3) == 0
		s := New(simConfig(cf, 2*(30+10*2+4*len(p1.pairs)+4*len(p2.pairs)), trace), ts.Fork("sched"))
		r1, r2 := newDoRun(p1), newDoRun(p2)
		o := &Outcome{Decoded: map[string]any{"call1": p1.decoded(), "call2": p2.decoded(), "nested": nested}}
		call := func(r *doRun, tag int, inner func()) {
			a, b, err := do2.Do(
				func() (int, error) {
					if inner != nil {
						inner()
					}
					e := r.body(0)
					return 100*tag + 11, e
				},
				func() (string, error) { e := r.body(1); return fmt.Sprint("v", tag), e },
			)
			r.checkReturn(s, err)
			if a != 100*tag+11 || b != fmt.Sprint("v", tag) {
				s.Fail("wrong-value", fmt.Sprintf("call %d got (%v,%v)", tag, a, b))
			}
		}
		f := s.Run(func() {
			r1.setup()
			r2.setup()
			if nested {
				call(r1, 1, func() { call(r2, 2, nil) })
				return
			}
			done := Named(Make[int](1), "caller2-done")
			GoHarness("caller2", func() { call(r2, 2, nil); Send(done, 1) })
			call(r1, 1, nil)
			Recv(done)
		})
		finish(s, f, o)
		for _, fl := range append(append([]bool{}, p1.fails...), p2.fails...) {
			if fl {
				o.Probes["do.fault_injected"]++
			}
		}
		return o
	}})
	reg("do-3", 3, func(r *doRun, s *Sim) {
		a, b, c, err := do3.Do(
			func() (int, error) { e := r.body(0); return 11, e },
			func() (do3.S, error) { e := r.body(1); return do3.S{A: 5, B: "x"}, e },
			func() ([]int, error) { e := r.body(2); return []int{1, 2, 3}, e },
		)
		r.checkReturn(s, err)
		if a != 11 || b != (do3.S{A: 5, B: "x"}) || len(c) != 3 || c[0] != 1 || c[2] != 3 {
			s.Fail("wrong-value", fmt.Sprintf("got (%v,%v,%v)", a, b, c))
		}
	})
	reg("do-3-same-type", 3, func(r *doRun, s *Sim) {
		a, b, c, err := do3s.Do(
			func() (int, error) { e := r.body(0); return 10, e },
			func() (int, error) { e := r.body(1); return 20, e },
			func() (int, error) { e := r.body(2); return 30, e },
		)
		r.checkReturn(s, err)
		if a != 10 || b != 20 || c != 30 {
			s.Fail("wrong-value", fmt.Sprintf("got (%v,%v,%v), want (10,20,30)", a, b, c))
		}
	})
	reg("do-4-same-type", 4, func(r *doRun, s *Sim) {
		a, b, c, d, err := do4s.Do(
			func() (string, error) { e := r.body(0); return "a", e },
			func() (string, error) { e := r.body(1); return "b", e },
			func() (string, error) { e := r.body(2); return "c", e },
			func() (string, error) { e := r.body(3); return "d", e },
		)
		r.checkReturn(s, err)
		if a != "a" || b != "b" || c != "c" || d != "d" {
			s.Fail("wrong-value", fmt.Sprintf("got (%v,%v,%v,%v), want (a,b,c,d)", a, b, c, d))
		}
	})
	reg("do-4", 4, func(r *doRun, s *Sim) {
		seven := 7
		a, b, c, d, err := do4.Do(
			func() (int, error) { e := r.body(0); return 11, e },
			func() (int, error) { e := r.body(1); return 22, e },
			func() (string, error) { e := r.body(2); return "v2", e },
			func() (*int, error) { e := r.body(3); return &seven, e },
		)
		r.checkReturn(s, err)
		if a != 11 || b != 22 || c != "v2" || d != &seven {
			s.Fail("wrong-value", fmt.Sprintf("got (%v,%v,%v,%v)", a, b, c, d))
		}
	})
}
