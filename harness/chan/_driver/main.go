// Command driver is the simulation worker for C19 and C20. It is built in a
// scratch module next to the translated catalogue packages (harness/t/*),
// which contain the text goderive emitted from the working tree, rewritten
// onto verif/chansim. One run = one tape = one execution.
package main

import (
	"encoding/binary"
	"encoding/json"
	"flag"
	"fmt"
	"os"
	"path/filepath"
	"sort"
	"time"

	"verif/chansim"
	"verif/tape"
)

// Outcome of one run.
type Outcome struct {
	Class    string // "" = property held
	Detail   string
	Steps    int
	Switches int
	Hash     uint64
	Scenario string
	Decoded  map[string]any
	Trace    []chansim.Event
	Probes   map[string]int
}

type scenario struct {
	name string
	prop string
	run  func(ts *tape.Set, trace bool) *Outcome
}

var scenarios []scenario

func scenariosFor(prop string) []scenario {
	var out []scenario
	for _, s := range scenarios {
		if s.prop == prop {
			out = append(out, s)
		}
	}
	return out
}

// runOne executes run number idx of the given property under base seed.
func runSet(prop string, ts *tape.Set, trace bool) *Outcome {
	scs := scenariosFor(prop)
	cf := ts.Fork("scenario")
	sc := scs[cf.Intn(len(scs))]
	o := sc.run(ts, trace)
	o.Scenario = sc.name
	return o
}

type Stats struct {
	Prop        string         `json:"prop"`
	Seed        uint64         `json:"seed"`
	From        int            `json:"from"`
	To          int            `json:"to"`
	Runs        int            `json:"runs"`
	Steps       int64          `json:"steps"`
	Nontrivial  int            `json:"nontrivial"`
	Distinct    int            `json:"distinct"`
	DistinctCap bool           `json:"distinct_capped"`
	PerScenario map[string]int `json:"per_scenario"`
	Probes      map[string]int `json:"probes"`
	Failures    int            `json:"failures"`
	FirstFail   int            `json:"first_fail"`
	FailClass   string         `json:"fail_class"`
	FailDetail  string         `json:"fail_detail"`
	Replay      string         `json:"replay"`
	WallS       float64        `json:"wall_s"`
	Samples     []any          `json:"samples"`
	ShrinkEvals int            `json:"shrink_evals"`
}

type ReplayFile struct {
	Property     string              `json:"property"`
	Violation    string              `json:"violation"`
	Detail       string              `json:"detail"`
	Seed         uint64              `json:"seed"`
	Run          int                 `json:"run"`
	Tape         map[string][]uint32 `json:"tape"`
	TapeOriginal map[string][]uint32 `json:"tape_original"`
	Decoded      map[string]any      `json:"decoded"`
	Schedule     []chansim.Event     `json:"schedule"`
	Engine       string              `json:"engine"`
	RepoRev      string              `json:"repo_rev"`
	Variant      string              `json:"variant"` // "" or "go1.21": language version the catalogue was translated at
}

func main() {
	prop := flag.String("prop", "C19", "property")
	seed := flag.Uint64("seed", 0, "base seed")
	from := flag.Int("from", 0, "first run index")
	to := flag.Int("to", 1000, "one past last run index")
	statsPath := flag.String("stats", "", "write stats JSON here")
	hashesPath := flag.String("hashes", "", "write distinct schedule hashes here")
	replayDir := flag.String("replaydir", "", "directory for replay files")
	replay := flag.String("replay", "", "replay this file and exit")
	maxWall := flag.Duration("maxwall", 0, "stop after this wall time (0 = run the whole range)")
	repoRev := flag.String("reporev", "", "recorded in replay files")
	variant := flag.String("variant", "", "recorded in replay files")
	digest := flag.Bool("digest", false, "print one line per run (determinism self-test)")
	flag.Parse()

	if *replay != "" {
		os.Exit(doReplay(*replay))
	}

	curRun := -1
	chansim.StartWatchdog(60*time.Second, func() string { return fmt.Sprintf("prop=%s seed=%d run=%d", *prop, *seed, curRun) })

	st := &Stats{Prop: *prop, Seed: *seed, From: *from, To: *to, PerScenario: map[string]int{}, Probes: map[string]int{}, FirstFail: -1}
	start := time.Now()
	const hashCap = 1 << 20
	distinct := make(map[uint64]struct{}, 1<<16)
	for idx := *from; idx < *to; idx++ {
		if *maxWall > 0 && idx%256 == 0 && time.Since(start) > *maxWall {
			st.To = idx
			break
		}
		curRun = idx
		ts := tape.NewSet(tape.Mix(*seed, tape.MixS(*prop), uint64(idx)))
		o := runSet(*prop, ts, false)
		st.Runs++
		st.Steps += int64(o.Steps)
		st.PerScenario[o.Scenario]++
		for _, k := range sortedKeys(o.Probes) {
			st.Probes[k] += o.Probes[k]
		}
		if *digest {
			fmt.Printf("run=%d scen=%s steps=%d sw=%d hash=%016x class=%q draws=%d\n", idx, o.Scenario, o.Steps, o.Switches, o.Hash, o.Class, ts.Total())
		}
		if o.Switches >= 2 {
			st.Nontrivial++
			if len(distinct) < hashCap {
				distinct[o.Hash] = struct{}{}
			} else {
				st.DistinctCap = true
			}
		}
		if len(st.Samples) < 3 && o.Switches >= 2 && idx%7 == 0 {
			st.Samples = append(st.Samples, map[string]any{"run": idx, "scenario": o.Scenario, "config": o.Decoded, "steps": o.Steps, "switches": o.Switches})
		}
		if o.Class != "" {
			st.Failures++
			st.FirstFail = idx
			st.FailClass = o.Class
			st.FailDetail = o.Detail
			// shrink in process (each candidate costs microseconds)
			orig := tape.Rec(ts.Recorded())
			fails := func(r tape.Rec) bool {
				o2 := runSet(*prop, tape.ReplaySet(0, r), false)
				return o2.Class == o.Class
			}
			min, evals := orig, 0
			if fails(orig) {
				min, evals = tape.Shrink(orig, fails, 20000, 20*time.Second)
			}
			st.ShrinkEvals = evals
			// normalise: replay min to get the canonical recorded tape + trace
			tsMin := tape.ReplaySet(0, min)
			oMin := runSet(*prop, tsMin, true)
			rf := &ReplayFile{Property: *prop, Violation: o.Class, Detail: oMin.Detail, Seed: *seed, Run: idx,
				Tape: tsMin.Recorded(), TapeOriginal: orig, Decoded: oMin.Decoded, Schedule: oMin.Trace, Engine: "chansim", RepoRev: *repoRev, Variant: *variant}
			if oMin.Class != o.Class {
				rf.Tape, rf.Detail = orig, o.Detail
			}
			if rf.Decoded == nil {
				rf.Decoded = map[string]any{}
			}
			rf.Decoded["scenario"] = oMin.Scenario
			if *replayDir != "" {
				os.MkdirAll(*replayDir, 0o755)
				p := filepath.Join(*replayDir, fmt.Sprintf("%s-%d-%d.json", *prop, *seed, idx))
				b, _ := json.MarshalIndent(rf, "", " ")
				os.WriteFile(p, b, 0o644)
				st.Replay = p
			}
			fmt.Printf("FAIL run=%d class=%s replay=%s\n", idx, o.Class, st.Replay)
			break
		}
	}
	st.Distinct = len(distinct)
	st.WallS = time.Since(start).Seconds()
	if *hashesPath != "" {
		hs := make([]uint64, 0, len(distinct))
		for h := range distinct {
			hs = append(hs, h)
		}
		sort.Slice(hs, func(i, j int) bool { return hs[i] < hs[j] })
		buf := make([]byte, 8*len(hs))
		for i, h := range hs {
			binary.LittleEndian.PutUint64(buf[8*i:], h)
		}
		os.WriteFile(*hashesPath, buf, 0o644)
	}
	if *statsPath != "" {
		b, _ := json.Marshal(st)
		os.WriteFile(*statsPath, b, 0o644)
	}
	if st.Failures > 0 {
		os.Exit(1)
	}
}

func sortedKeys(m map[string]int) []string {
	ks := make([]string, 0, len(m))
	for k := range m {
		ks = append(ks, k)
	}
	sort.Strings(ks)
	return ks
}

func doReplay(path string) int {
	b, err := os.ReadFile(path)
	if err != nil {
		fmt.Fprintln(os.Stderr, err)
		return 2
	}
	var rf ReplayFile
	if err := json.Unmarshal(b, &rf); err != nil {
		fmt.Fprintln(os.Stderr, err)
		return 2
	}
	chansim.StartWatchdog(60*time.Second, func() string { return "replay " + path })
	o := runSet(rf.Property, tape.ReplaySet(0, rf.Tape), true)
	fmt.Printf("scenario=%s config=%v\n", o.Scenario, o.Decoded)
	for _, e := range o.Trace {
		fmt.Printf("  step %3d task %2d %-14s %-8s %s\n", e.Step, e.Task, e.Op, e.Ch, e.Note)
	}
	if o.Class == "" {
		fmt.Println("REPLAY: property held on this tape")
		return 0
	}
	fmt.Printf("REPLAY: class=%s detail=%s\n", o.Class, o.Detail)
	if o.Class == rf.Violation {
		fmt.Printf("VIOLATION property=%s replay=%s\n", rf.Property, path)
		return 1
	}
	fmt.Printf("REPLAY: different class than recorded (%s)\n", rf.Violation)
	return 1
}
