package main

import (
	"fmt"
	"strconv"

	. "verif/chansim"
	"verif/tape"

	"harness/t/dupb"
	"harness/t/dupr"
	"harness/t/fmapchan"
	"harness/t/fmapint"
	"harness/t/fmapstr"
	"harness/t/joinbr"
	"harness/t/joincc"
	"harness/t/joinrc"
	"harness/t/joinrr"
	"harness/t/joinsb"
	"harness/t/joinsr"
	"harness/t/joinv2"
	"harness/t/joinv3"
	"harness/t/joinv4"
	"harness/t/pipeline"
	"harness/t/pipelinebb"
)

// simConfig draws the scheduling knobs (swarm: different per run).
// curCfg is the configuration fork of the run being set up (harness helpers draw from it).
var curCfg *tape.Tape

func simConfig(cf *tape.Tape, opsBound int, trace bool) Config {
	curCfg = cf
	c := Config{RecordTrace: trace}
	c.Strategy = cf.Intn(NStrategies)
	c.PCTDepth = 1 + cf.Intn(3)
	c.PCTLenHint = opsBound
	c.StallProb = []int{0, 30, 120}[cf.Intn(3)]
	c.StallMax = cf.Intn(12)
	c.DelayStart = []int{0, 0, 4, 16}[cf.Intn(4)]
	c.StepBudget = 20 * opsBound
	c.Procs = []int{1, 2, 4, 16}[cf.Intn(4)]
	return c
}

// hist is the recorded history of one C19 run.
type hist struct {
	sent    map[string][]int // per input name: items in sending order
	order   []string         // input names in creation order
	recv    [][]int          // per output: values in receiving order
	sawEnd  []bool           // per output: consumer observed the close
	inputs  []func() (closed bool, buffered int, name string)
	outputs []func() (closed bool, closes int, name string)
	noOrder map[string]bool // inputs whose items may overtake each other (the same channel given twice)
}

func newHist(nout int) *hist {
	return &hist{sent: map[string][]int{}, recv: make([][]int, nout), sawEnd: make([]bool, nout), noOrder: map[string]bool{}}
}

func (h *hist) addInput(ch *Chan[int]) {
	h.inputs = append(h.inputs, func() (bool, int, string) { return IsClosed(ch), BufLen(ch), NameOf(ch) })
}

func regOutput[T any](h *hist, ch *Chan[T]) {
	h.outputs = append(h.outputs, func() (bool, int, string) { return IsClosed(ch), Closes(ch), NameOf(ch) })
}

// producer sends items on ch and closes it. yields is a per-item number of
// extra scheduling points ("slow producer").
func (h *hist) producer(ch *Chan[int], items []int) func() {
	name := NameOf(ch)
	h.order = append(h.order, name)
	h.sent[name] = nil
	// a producer may have run ahead of the combinator: part of its items (as
	// many as the buffer takes) are already in the channel when the producer
	// task starts, and if all fit the channel may already be closed
	pre := 0
	switch curCfg.Intn(4) {
	case 1:
		pre = Cap(ch)
	case 2:
		pre = Cap(ch)
		if len(items) <= pre {
			pre = len(items)
			for _, it := range items {
				h.sent[name] = append(h.sent[name], it)
				Send(ch, it)
			}
			Close(ch)
			Probe("input.closed_before_start")
			return func() {}
		}
	}
	if pre > len(items) {
		pre = len(items)
	}
	for _, it := range items[:pre] {
		h.sent[name] = append(h.sent[name], it)
		Send(ch, it)
	}
	if pre > 0 {
		Probe("input.prefilled")
	}
	rest := items[pre:]
	return func() {
		for _, it := range rest {
			h.sent[name] = append(h.sent[name], it)
			Send(ch, it)
		}
		Close(ch)
	}
}

func (h *hist) consume(out *Chan[int], idx int) {
	for v, ok := Recv2(out); ok; v, ok = Recv2(out) {
		h.recv[idx] = append(h.recv[idx], v)
	}
	h.sawEnd[idx] = true
}

// invariant evaluated after every step: an output is closed only after all
// inputs are closed and drained.
func (h *hist) invariant(s *Sim) func() {
	return func() {
		for _, o := range h.outputs {
			closed, _, oname := o()
			if !closed {
				continue
			}
			for _, in := range h.inputs {
				c, n, iname := in()
				if !c || n > 0 {
					s.Fail("early-close", fmt.Sprintf("output %s is closed while input %s is closed=%v with %d buffered items", oname, iname, c, n))
					return
				}
			}
		}
	}
}

// final checks over the recorded history. mapBack maps a received value to
// the item code it was produced from. wholeOrder demands that the received
// sequence is exactly the (single) input's sequence.
func (h *hist) check(o *Outcome, wholeOrder bool, mapBack func(int) int) {
	if o.Class != "" {
		return
	}
	for i, out := range h.outputs {
		_, closes, name := out()
		if closes != 1 {
			o.Class, o.Detail = "close-count", fmt.Sprintf("output %s closed %d times", name, closes)
			return
		}
		if !h.sawEnd[i] {
			o.Class, o.Detail = "close-unobserved", fmt.Sprintf("consumer of %s never saw the close", name)
			return
		}
	}
	// expected multiset and per-input order
	pos := map[int][2]int{} // item -> (input index, position)
	total := 0
	for ii, name := range h.order {
		for p, it := range h.sent[name] {
			pos[it] = [2]int{ii, p}
			total++
		}
	}
	for oi := range h.recv {
		seen := map[int]bool{}
		next := make([]int, len(h.order))
		for _, v := range h.recv[oi] {
			it := mapBack(v)
			ip, ok := pos[it]
			if !ok {
				o.Class, o.Detail = "phantom-item", fmt.Sprintf("output %d delivered %d, which no input sent", oi, v)
				return
			}
			if seen[it] {
				o.Class, o.Detail = "duplicate-item", fmt.Sprintf("output %d delivered item %d twice", oi, it)
				return
			}
			seen[it] = true
			if ip[1] != next[ip[0]] && !h.noOrder[h.order[ip[0]]] {
				o.Class, o.Detail = "order", fmt.Sprintf("output %d delivered item %d (position %d of input %s) when position %d was next", oi, it, ip[1], h.order[ip[0]], next[ip[0]])
				return
			}
			next[ip[0]]++
		}
		if len(seen) != total {
			o.Class, o.Detail = "lost-item", fmt.Sprintf("output %d delivered %d of %d items sent: got %v, sent %v", oi, len(seen), total, h.recv[oi], h.sent)
			return
		}
	}
	_ = wholeOrder // with a single input per-input order is whole order
}

func finish(s *Sim, f *Failure, o *Outcome) {
	o.Steps, o.Switches, o.Hash, o.Trace, o.Probes = s.Steps, s.Switches, s.Hash(), s.Trace, s.Probes
	if f != nil {
		o.Class, o.Detail = f.Class, f.Detail
	}
}

// drawItems draws n item counts and capacities; item codes are unique:
// (input+1)*100 + seq.
func drawInputs(cf *tape.Tape, n, maxItems int) (counts, caps []int) {
	for i := 0; i < n; i++ {
		counts = append(counts, cf.Intn(maxItems+1))
		caps = append(caps, cf.Intn(3))
	}
	return
}

func itemsOf(input, n int) []int {
	var out []int
	for k := 0; k < n; k++ {
		out = append(out, (input+1)*100+k)
	}
	return out
}

func opsBound(counts []int) int {
	t := 0
	for _, c := range counts {
		t += c
	}
	return 40 + 12*t + 12*len(counts)
}

func ident(v int) int { return v }

func init() {
	reg := func(name string, run func(ts *tape.Set, trace bool) *Outcome) {
		scenarios = append(scenarios, scenario{name: name, prop: "C19", run: run})
	}

	// ---- Fmap over <-chan int ------------------------------------------------
	reg("fmap-int", func(ts *tape.Set, trace bool) *Outcome {
		cf := ts.Fork("cfg")
		counts, caps := drawInputs(cf, 1, 5)
		fYields := cf.Intn(3)
		s := New(simConfig(cf, opsBound(counts)+counts[0]*fYields, trace), ts.Fork("sched"))
		h := newHist(1)
		o := &Outcome{Decoded: map[string]any{"items": counts, "caps": caps, "f_yields": fYields}}
		f := s.Run(func() {
			in := Named(Make[int](caps[0]), "in0")
			h.addInput(in)
			GoHarness("producer", h.producer(in, itemsOf(0, counts[0])))
			out := fmapint.Fmap(func(x int) int {
				for i := 0; i < fYields; i++ {
					Yield()
				}
				return 2*x + 1
			}, in)
			Named(out, "out")
			regOutput(h, out)
			s.SetInvariant(h.invariant(s))
			h.consume(out, 0)
		})
		finish(s, f, o)
		h.check(o, true, func(v int) int { return (v - 1) / 2 })
		return o
	})

	// ---- Fmap over <-chan string with a slice result ---------------------------
	reg("fmap-str", func(ts *tape.Set, trace bool) *Outcome {
		cf := ts.Fork("cfg")
		counts, caps := drawInputs(cf, 1, 5)
		s := New(simConfig(cf, opsBound(counts), trace), ts.Fork("sched"))
		h := newHist(1)
		o := &Outcome{Decoded: map[string]any{"items": counts, "caps": caps}}
		f := s.Run(func() {
			in := Named(Make[string](caps[0]), "in0")
			h.inputs = append(h.inputs, func() (bool, int, string) { return IsClosed(in), BufLen(in), "in0" })
			h.order = append(h.order, "in0")
			GoHarness("producer", func() {
				for _, it := range itemsOf(0, counts[0]) {
					h.sent["in0"] = append(h.sent["in0"], it)
					Send(in, strconv.Itoa(it))
				}
				Close(in)
			})
			out := fmapstr.Fmap(func(x string) []int { n, _ := strconv.Atoi(x); return []int{n, n} }, in)
			Named(out, "out")
			regOutput(h, out)
			s.SetInvariant(h.invariant(s))
			for v, ok := Recv2(out); ok; v, ok = Recv2(out) {
				if len(v) != 2 || v[0] != v[1] {
					s.Fail("wrong-value", fmt.Sprint(v))
					return
				}
				h.recv[0] = append(h.recv[0], v[0])
			}
			h.sawEnd[0] = true
		})
		finish(s, f, o)
		h.check(o, true, ident)
		return o
	})

	// ---- Fmap with a channel-valued function ---------------------------------
	reg("fmap-chan", func(ts *tape.Set, trace bool) *Outcome {
		cf := ts.Fork("cfg")
		counts, caps := drawInputs(cf, 1, 4)
		inner := cf.Intn(3) // items each f(x) channel carries
		innerCap := cf.Intn(3)
		s := New(simConfig(cf, opsBound(counts)+counts[0]*(10+6*inner), trace), ts.Fork("sched"))
		h := newHist(1)
		o := &Outcome{Decoded: map[string]any{"items": counts, "caps": caps, "inner_items": inner, "inner_cap": innerCap}}
		f := s.Run(func() {
			in := Named(Make[int](caps[0]), "in0")
			h.addInput(in)
			GoHarness("producer", h.producer(in, itemsOf(0, counts[0])))
			made := map[*Chan[int]]int{}
			out := fmapchan.Fmap(func(x int) *Chan[int] {
				c := Named(Make[int](innerCap), "f"+strconv.Itoa(x))
				made[c] = x
				GoHarness("f-producer", func() {
					for k := 0; k < inner; k++ {
						Send(c, x*10+k)
					}
					Close(c)
				})
				return c
			}, in)
			Named(out, "out")
			regOutput(h, out)
			s.SetInvariant(h.invariant(s))
			for c, ok := Recv2(out); ok; c, ok = Recv2(out) {
				x, known := made[c]
				if !known {
					s.Fail("phantom-item", "output delivered a channel f never returned")
					return
				}
				h.recv[0] = append(h.recv[0], x)
				k := 0
				for v, ok := Recv2(c); ok; v, ok = Recv2(c) {
					if v != x*10+k {
						s.Fail("wrong-value", fmt.Sprintf("inner channel of %d delivered %d at %d", x, v, k))
						return
					}
					k++
				}
			}
			h.sawEnd[0] = true
		})
		finish(s, f, o)
		h.check(o, true, ident)
		return o
	})

	// ---- Join over a channel of channels -------------------------------------
	joinCC := func(name string, join func(*Chan[*Chan[int]]) *Chan[int]) {
		reg(name, func(ts *tape.Set, trace bool) *Outcome {
			cf := ts.Fork("cfg")
			n := cf.Intn(5)
			counts, caps := drawInputs(cf, n, 4)
			outerCap := cf.Intn(3)
			mode := cf.Intn(3) // 0 producers started first, 1 outer first, 2 each producer started when its channel is handed over
			s := New(simConfig(cf, opsBound(counts)+10, trace), ts.Fork("sched"))
			h := newHist(1)
			o := &Outcome{Decoded: map[string]any{"inputs": n, "items": counts, "caps": caps, "outer_cap": outerCap, "start_mode": mode}}
			f := s.Run(func() {
				outer := Named(Make[*Chan[int]](outerCap), "outer")
				h.inputs = append(h.inputs, func() (bool, int, string) { return IsClosed(outer), BufLen(outer), "outer" })
				var ins []*Chan[int]
				var prods []func()
				for i := 0; i < n; i++ {
					c := Named(Make[int](caps[i]), "in"+strconv.Itoa(i))
					ins = append(ins, c)
					h.addInput(c)
					prods = append(prods, h.producer(c, itemsOf(i, counts[i])))
				}
				startOuter := func() {
					GoHarness("outer-producer", func() {
						for i, c := range ins {
							Send(outer, c)
							if mode == 2 {
								GoHarness("producer", prods[i])
							}
						}
						Close(outer)
					})
				}
				if mode == 0 {
					for _, p := range prods {
						GoHarness("producer", p)
					}
					startOuter()
				} else if mode == 1 {
					startOuter()
					for _, p := range prods {
						GoHarness("producer", p)
					}
				} else {
					startOuter()
				}
				out := Named(join(outer), "out")
				regOutput(h, out)
				s.SetInvariant(h.invariant(s))
				h.consume(out, 0)
			})
			finish(s, f, o)
			h.check(o, false, ident)
			return o
		})
	}
	joinCC("join-chan-recv", joinrr.Join)
	joinCC("join-chan-bidi", joinbr.Join)
	joinCC("join-chan-of-bidi", joincc.Join)
	joinCC("join-recv-chan-of-bidi", joinrc.Join)

	// ---- Join over a slice of channels ---------------------------------------
	joinSlice := func(name string, join func([]*Chan[int]) *Chan[int]) {
		reg(name, func(ts *tape.Set, trace bool) *Outcome {
			cf := ts.Fork("cfg")
			n := cf.Intn(5)
			counts, caps := drawInputs(cf, n, 4)
			nilSlice := n == 0 && cf.Bool()
			late := cf.Bool() // producers started after the call
			dup := -1
			if cf.Intn(6) == 0 {
				dup = cf.Intn(64)
			}
			s := New(simConfig(cf, opsBound(counts)+8, trace), ts.Fork("sched"))
			h := newHist(1)
			o := &Outcome{Decoded: map[string]any{"inputs": n, "items": counts, "caps": caps, "nil_slice": nilSlice, "late_producers": late, "same_channel_twice": dup}}
			f := s.Run(func() {
				ins := []*Chan[int]{}
				if nilSlice {
					ins = nil
				}
				var prods []func()
				for i := 0; i < n; i++ {
					c := Named(Make[int](caps[i]), "in"+strconv.Itoa(i))
					ins = append(ins, c)
					h.addInput(c)
					prods = append(prods, h.producer(c, itemsOf(i, counts[i])))
				}
				if dup >= 0 && n > 0 {
					// the same channel at two positions of the slice: two readers share it, so its
					// items may overtake each other (order is not judged for it), everything else holds
					d := dup % n
					at := (dup / n) % (n + 1)
					ins = append(ins[:at:at], append([]*Chan[int]{ins[d]}, ins[at:]...)...)
					h.noOrder[NameOf(ins[at])] = true
					Probe("input.same_channel_twice")
				}
				if !late {
					for _, p := range prods {
						GoHarness("producer", p)
					}
				}
				out := Named(join(ins), "out")
				regOutput(h, out)
				s.SetInvariant(h.invariant(s))
				if late {
					for _, p := range prods {
						GoHarness("producer", p)
					}
				}
				h.consume(out, 0)
			})
			finish(s, f, o)
			h.check(o, false, ident)
			return o
		})
	}
	joinSlice("join-slice-recv", joinsr.Join)
	joinSlice("join-slice-bidi", joinsb.Join)

	// ---- variadic Join ----------------------------------------------------------
	joinVar := func(name string, n int, join func(ins []*Chan[int]) *Chan[int]) {
		reg(name, func(ts *tape.Set, trace bool) *Outcome {
			cf := ts.Fork("cfg")
			counts, caps := drawInputs(cf, n, 4)
			nilMask := 0
			if cf.Chance(1, 8) {
				nilMask = cf.Intn(1 << n) // some inputs are nil channels (legal: never ready)
			}
			s := New(simConfig(cf, 2*opsBound(counts), trace), ts.Fork("sched"))
			h := newHist(1)
			o := &Outcome{Decoded: map[string]any{"inputs": n, "items": counts, "caps": caps, "nil_mask": nilMask}}
			f := s.Run(func() {
				var ins []*Chan[int]
				for i := 0; i < n; i++ {
					if nilMask&(1<<i) != 0 {
						ins = append(ins, nil)
						continue
					}
					c := Named(Make[int](caps[i]), "in"+strconv.Itoa(i))
					ins = append(ins, c)
					h.addInput(c)
					GoHarness("producer", h.producer(c, itemsOf(i, counts[i])))
				}
				out := Named(join(ins), "out")
				regOutput(h, out)
				s.SetInvariant(h.invariant(s))
				h.consume(out, 0)
			})
			finish(s, f, o)
			h.check(o, false, ident)
			return o
		})
	}
	joinVar("join-variadic-2", 2, func(c []*Chan[int]) *Chan[int] { return joinv2.Join(c[0], c[1]) })
	joinVar("join-variadic-3", 3, func(c []*Chan[int]) *Chan[int] { return joinv3.Join(c[0], c[1], c[2]) })
	joinVar("join-variadic-4", 4, func(c []*Chan[int]) *Chan[int] { return joinv4.Join(c[0], c[1], c[2], c[3]) })

	// ---- Pipeline ---------------------------------------------------------------
	pipelineScenario := func(name string, mk func(func(int) *Chan[int], func(int) *Chan[int]) func(int) *Chan[int]) {
		reg(name, func(ts *tape.Set, trace bool) *Outcome {
			cf := ts.Fork("cfg")
			nb := cf.Intn(4) // items f(a) produces
			nc := cf.Intn(4) // items each g(b) produces
			capF := cf.Intn(3)
			capG := cf.Intn(3)
			s := New(simConfig(cf, 60+nb*(20+8*nc), trace), ts.Fork("sched"))
			h := newHist(1)
			o := &Outcome{Decoded: map[string]any{"f_items": nb, "g_items": nc, "f_cap": capF, "g_cap": capG}}
			f := s.Run(func() {
				fn := func(a int) *Chan[int] {
					c := Named(Make[int](capF), "f")
					h.inputs = append(h.inputs, func() (bool, int, string) { return IsClosed(c), BufLen(c), "f" })
					GoHarness("f-producer", func() {
						for j := 0; j < nb; j++ {
							Send(c, a*10+j)
						}
						Close(c)
					})
					return c
				}
				gn := func(b int) *Chan[int] {
					c := Named(Make[int](capG), "g"+strconv.Itoa(b))
					h.addInput(c)
					GoHarness("g-producer", h.producer(c, func() []int {
						var its []int
						for k := 0; k < nc; k++ {
							its = append(its, b*10+k)
						}
						return its
					}()))
					return c
				}
				p := mk(fn, gn)
				out := Named(p(7), "out")
				regOutput(h, out)
				s.SetInvariant(h.invariant(s))
				h.consume(out, 0)
			})
			finish(s, f, o)
			if o.Class == "" && len(h.order) != nb {
				o.Class, o.Detail = "lost-item", fmt.Sprintf("g was applied to %d of the %d items f produced", len(h.order), nb)
			}
			h.check(o, false, ident)
			return o
		})
	}
	pipelineScenario("pipeline", pipeline.Pipeline)
	pipelineScenario("pipeline-bidi-stages", pipelinebb.Pipeline)

	// ---- Pipeline: the composed function used twice, concurrently -----------------
	reg("pipeline-twice", func(ts *tape.Set, trace bool) *Outcome {
		cf := ts.Fork("cfg")
		nb := cf.Intn(3)
		nc := cf.Intn(3)
		capF := cf.Intn(3)
		capG := cf.Intn(3)
		s := New(simConfig(cf, 2*(60+nb*(20+8*nc)), trace), ts.Fork("sched"))
		hs := []*hist{newHist(1), newHist(1)}
		o := &Outcome{Decoded: map[string]any{"f_items": nb, "g_items": nc, "f_cap": capF, "g_cap": capG, "invocations": 2}}
		f := s.Run(func() {
			cur := map[int]*hist{7: hs[0], 8: hs[1]}
			fn := func(a int) *Chan[int] {
				h := cur[a]
				c := Named(Make[int](capF), "f"+strconv.Itoa(a))
				h.inputs = append(h.inputs, func() (bool, int, string) { return IsClosed(c), BufLen(c), NameOf(c) })
				GoHarness("f-producer", func() {
					for j := 0; j < nb; j++ {
						Send(c, a*10+j)
					}
					Close(c)
				})
				return c
			}
			gn := func(b int) *Chan[int] {
				h := cur[b/10]
				c := Named(Make[int](capG), "g"+strconv.Itoa(b))
				h.addInput(c)
				var its []int
				for k := 0; k < nc; k++ {
					its = append(its, b*10+k)
				}
				GoHarness("g-producer", h.producer(c, its))
				return c
			}
			p := pipeline.Pipeline(fn, gn)
			i0, i1 := hs[0].invariant(s), hs[1].invariant(s)
			s.SetInvariant(func() { i0(); i1() })
			// two callers use the same composed function at the same time
			GoHarness("caller2", func() {
				out2 := Named(p(8), "out2")
				regOutput(hs[1], out2)
				hs[1].consume(out2, 0)
			})
			out1 := Named(p(7), "out1")
			regOutput(hs[0], out1)
			hs[0].consume(out1, 0)
		})
		finish(s, f, o)
		for i, h := range hs {
			if o.Class == "" && len(h.order) != nb {
				o.Class, o.Detail = "lost-item", fmt.Sprintf("invocation %d: g was applied to %d of the %d items f produced", i, len(h.order), nb)
			}
			h.check(o, false, ident)
		}
		return o
	})

	// ---- two callers use one combinator at the same time ------------------------------
	// (a change that introduces state shared between calls - a pool, a cache,
	// a package-level variable - only shows when calls overlap)
	reg("concurrent-callers", func(ts *tape.Set, trace bool) *Outcome {
		cf := ts.Fork("cfg")
		kind := cf.Intn(3)
		type inv struct {
			counts, caps []int
			h            *hist
		}
		var invs []*inv
		total := 0
		for k := 0; k < 2; k++ {
			n := 1
			if kind == 1 {
				n = 1 + cf.Intn(3)
			}
			counts, caps := drawInputs(cf, n, 3)
			nout := 1
			if kind == 2 {
				nout = 2
			}
			invs = append(invs, &inv{counts, caps, newHist(nout)})
			total += opsBound(counts)
		}
		s := New(simConfig(cf, 2*total, trace), ts.Fork("sched"))
		o := &Outcome{Decoded: map[string]any{"combinator": []string{"fmap", "join-slice", "dup"}[kind], "items": [][]int{invs[0].counts, invs[1].counts}, "caps": [][]int{invs[0].caps, invs[1].caps}}}
		f := s.Run(func() {
			body := func(k int) {
				iv := invs[k]
				h := iv.h
				var ins []*Chan[int]
				for i := range iv.counts {
					c := Named(Make[int](iv.caps[i]), fmt.Sprintf("in%d_%d", k, i))
					ins = append(ins, c)
					h.addInput(c)
					its := itemsOf(i, iv.counts[i])
					for j := range its {
						its[j] += 1000 * (k + 1)
					}
					GoHarness("producer", h.producer(c, its))
				}
				switch kind {
				case 0:
					out := Named(fmapint.Fmap(func(x int) int { return x }, ins[0]), fmt.Sprintf("out%d", k))
					regOutput(h, out)
					h.consume(out, 0)
				case 1:
					out := Named(joinsr.Join(ins), fmt.Sprintf("out%d", k))
					regOutput(h, out)
					h.consume(out, 0)
				case 2:
					c1, c2 := dupb.Dup(ins[0])
					Named(c1, fmt.Sprintf("out%d_1", k))
					Named(c2, fmt.Sprintf("out%d_2", k))
					regOutput(h, c1)
					regOutput(h, c2)
					GoHarness("consumer2", func() { h.consume(c2, 1) })
					h.consume(c1, 0)
				}
			}
			i0, i1 := invs[0].h.invariant(s), invs[1].h.invariant(s)
			s.SetInvariant(func() { i0(); i1() })
			GoHarness("caller2", func() { body(1) })
			body(0)
		})
		finish(s, f, o)
		for _, iv := range invs {
			iv.h.check(o, kind != 1, ident)
		}
		return o
	})

	// ---- Dup ----------------------------------------------------------------------
	dup := func(name string, d func(*Chan[int]) (*Chan[int], *Chan[int])) {
		reg(name, func(ts *tape.Set, trace bool) *Outcome {
			cf := ts.Fork("cfg")
			counts, caps := drawInputs(cf, 1, 5)
			s := New(simConfig(cf, 2*opsBound(counts), trace), ts.Fork("sched"))
			h := newHist(2)
			o := &Outcome{Decoded: map[string]any{"items": counts, "caps": caps}}
			f := s.Run(func() {
				in := Named(Make[int](caps[0]), "in0")
				h.addInput(in)
				GoHarness("producer", h.producer(in, itemsOf(0, counts[0])))
				c1, c2 := d(in)
				Named(c1, "out1")
				Named(c2, "out2")
				regOutput(h, c1)
				regOutput(h, c2)
				s.SetInvariant(h.invariant(s))
				GoHarness("consumer2", func() { h.consume(c2, 1) })
				h.consume(c1, 0)
			})
			finish(s, f, o)
			h.check(o, true, ident)
			return o
		})
	}
	dup("dup-bidi", dupb.Dup)
	dup("dup-recv", dupr.Dup)
}
