// Command native is the real-runtime corroboration of C19/C20 (thorough tier
// only): the untranslated catalogue packages (exactly what goderive emitted)
// run on the Go runtime under the race detector. It is NOT seeded and NOT the
// deciding step: the simulator is. A race report here that the simulator did
// not produce means an access the translator does not instrument.
package main

import (
	"errors"
	"fmt"
	"math/rand"
	"os"
	"runtime"
	"sort"
	"sync"
	"time"

	"harness/cat/do3"
	"harness/cat/dupb"
	"harness/cat/fmapint"
	"harness/cat/joinrr"
	"harness/cat/joinsr"
	"harness/cat/joinv3"
	"harness/cat/pipeline"
)

func producer(c chan int, items []int, wg *sync.WaitGroup) {
	defer wg.Done()
	for _, it := range items {
		if rand.Intn(4) == 0 {
			runtime.Gosched()
		}
		c <- it
	}
	close(c)
}

func drain(c <-chan int) []int {
	var out []int
	for v := range c {
		out = append(out, v)
	}
	return out
}

func sameMultiset(a, b []int) bool {
	a, b = append([]int(nil), a...), append([]int(nil), b...)
	sort.Ints(a)
	sort.Ints(b)
	if len(a) != len(b) {
		return false
	}
	for i := range a {
		if a[i] != b[i] {
			return false
		}
	}
	return true
}

func fail(f string, a ...any) {
	fmt.Printf("NATIVE-FAIL "+f+"\n", a...)
	os.Exit(1)
}

func main() {
	deadline := time.Now().Add(40 * time.Second)
	if len(os.Args) > 1 {
		if d, err := time.ParseDuration(os.Args[1]); err == nil {
			deadline = time.Now().Add(d)
		}
	}
	rounds := 0
	for time.Now().Before(deadline) {
		rounds++
		var wg sync.WaitGroup
		n := rand.Intn(4)
		var ins []chan int
		var want []int
		for i := 0; i < n; i++ {
			c := make(chan int, rand.Intn(3))
			ins = append(ins, c)
			var items []int
			for k := 0; k < rand.Intn(4); k++ {
				items = append(items, (i+1)*100+k)
			}
			want = append(want, items...)
			wg.Add(1)
			go producer(c, items, &wg)
		}
		switch rounds % 7 {
		case 0:
			in := make(chan int, rand.Intn(3))
			items := []int{1, 2, 3, 4}[:rand.Intn(5)]
			wg.Add(1)
			go producer(in, items, &wg)
			got := drain(fmapint.Fmap(func(x int) int { return 2*x + 1 }, in))
			for i, v := range got {
				if v != 2*items[i]+1 {
					fail("fmap order %v", got)
				}
			}
			if len(got) != len(items) {
				fail("fmap lost items %v", got)
			}
			for _, c := range ins {
				drain(c)
			}
		case 1:
			outer := make(chan (<-chan int), rand.Intn(3))
			go func() {
				for _, c := range ins {
					outer <- c
				}
				close(outer)
			}()
			if got := drain(joinrr.Join(outer)); !sameMultiset(got, want) {
				fail("join chan of chan: got %v want %v", got, want)
			}
		case 2:
			var rs []<-chan int
			for _, c := range ins {
				rs = append(rs, c)
			}
			if got := drain(joinsr.Join(rs)); !sameMultiset(got, want) {
				fail("join slice: got %v want %v", got, want)
			}
		case 3:
			for len(ins) < 3 {
				c := make(chan int)
				close(c)
				ins = append(ins, c)
			}
			if got := drain(joinv3.Join(ins[0], ins[1], ins[2])); !sameMultiset(got, want) {
				fail("join variadic: got %v want %v", got, want)
			}
		case 4:
			for _, c := range ins {
				drain(c)
			}
			f := func(a int) <-chan int {
				c := make(chan int, rand.Intn(2))
				go func() { c <- a * 10; c <- a*10 + 1; close(c) }()
				return c
			}
			g := func(b int) <-chan int {
				c := make(chan int)
				go func() { c <- b * 10; close(c) }()
				return c
			}
			if got := drain(pipeline.Pipeline(f, g)(7)); !sameMultiset(got, []int{700, 710}) {
				fail("pipeline: got %v", got)
			}
		case 5:
			for _, c := range ins {
				drain(c)
			}
			in := make(chan int, rand.Intn(3))
			wg.Add(1)
			go producer(in, []int{5, 6, 7}, &wg)
			c1, c2 := dupb.Dup(in)
			var g2 []int
			done := make(chan struct{})
			go func() { g2 = drain(c2); close(done) }()
			g1 := drain(c1)
			<-done
			if fmt.Sprint(g1) != "[5 6 7]" || fmt.Sprint(g2) != "[5 6 7]" {
				fail("dup: %v %v", g1, g2)
			}
		case 6:
			for _, c := range ins {
				drain(c)
			}
			e := errors.New("e")
			rv := make(chan int)
			a, b, c, err := do3.Do(
				func() (int, error) { rv <- 1; return 11, nil },
				func() (do3.S, error) { <-rv; return do3.S{A: 5}, e },
				func() ([]int, error) { runtime.Gosched(); return []int{1}, nil },
			)
			if a != 11 || b.A != 5 || len(c) != 1 || err != e {
				fail("do: %v %v %v %v", a, b, c, err)
			}
		}
		wg.Wait()
	}
	fmt.Printf("NATIVE-OK rounds=%d\n", rounds)
}
