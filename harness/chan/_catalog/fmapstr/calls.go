package fmapstr

func Fmap(f func(string) []int, in <-chan string) <-chan []int { return deriveFmap(f, in) }
