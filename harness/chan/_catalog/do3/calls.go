package do3

type S struct {
	A int
	B string
}

func Do(f0 func() (int, error), f1 func() (S, error), f2 func() ([]int, error)) (int, S, []int, error) {
	return deriveDo(f0, f1, f2)
}
