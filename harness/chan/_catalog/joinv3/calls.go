package joinv3

func Join(a chan int, b <-chan int, c <-chan int) <-chan int { return deriveJoin(a, b, c) }
