package fmapint

func Fmap(f func(int) int, in <-chan int) <-chan int { return deriveFmap(f, in) }
