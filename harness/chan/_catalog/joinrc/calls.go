package joinrc

func Join(in <-chan chan int) <-chan int { return deriveJoin(in) }
