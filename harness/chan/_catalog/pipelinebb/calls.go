package pipelinebb

func Pipeline(f func(int) chan int, g func(int) chan int) func(int) <-chan int {
	return derivePipeline(f, g)
}
