package joinv4

func Join(a <-chan int, b <-chan int, c chan int, d <-chan int) <-chan int {
	return deriveJoin(a, b, c, d)
}
