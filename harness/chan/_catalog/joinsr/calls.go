package joinsr

func Join(in []<-chan int) <-chan int { return deriveJoin(in) }
