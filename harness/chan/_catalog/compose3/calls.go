package compose3

type S struct {
	A int
	B string
}

// Compose returns one composed function value; the harness calls it from several tasks at once.
func Compose(f0 func(int) (string, int, error), f1 func(string, int) (S, error), f2 func(S) ([2]int, *S, error)) func(int) ([2]int, *S, error) {
	return deriveCompose(f0, f1, f2)
}
