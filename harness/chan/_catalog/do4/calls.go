package do4

func Do(f0 func() (int, error), f1 func() (int, error), f2 func() (string, error), f3 func() (*int, error)) (int, int, string, *int, error) {
	return deriveDo(f0, f1, f2, f3)
}
