package joinsb

func Join(in []chan int) <-chan int { return deriveJoin(in) }
