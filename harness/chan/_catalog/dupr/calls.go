package dupr

func Dup(c <-chan int) (<-chan int, <-chan int) { return deriveDup(c) }
