package do4s

// four functions of one result type
func Do(f0 func() (string, error), f1 func() (string, error), f2 func() (string, error), f3 func() (string, error)) (string, string, string, string, error) {
	return deriveDo(f0, f1, f2, f3)
}
