package do3s

// three functions of one result type
func Do(f0 func() (int, error), f1 func() (int, error), f2 func() (int, error)) (int, int, int, error) {
	return deriveDo(f0, f1, f2)
}
