package joinv2

func Join(a <-chan int, b chan int) <-chan int { return deriveJoin(a, b) }
