package fmapchan

func Fmap(f func(int) <-chan int, in <-chan int) <-chan (<-chan int) { return deriveFmap(f, in) }
