package do2

func Do(f0 func() (int, error), f1 func() (string, error)) (int, string, error) {
	return deriveDo(f0, f1)
}
