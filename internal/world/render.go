package world

import (
	"fmt"
	"go/format"
	"sort"
	"strings"
)

const ModulePath = "example.com/w"

const extSource = `// Package ext is an imported package with exported and unexported fields.
package ext

import (
	"time"

	oext "example.com/w/other/ext"
)

// X has unexported fields whose types come from packages its users need not import.
type X struct {
	Name string
	ttl  time.Duration
	at   oext.T
	when []time.Month
}

func NewX(n string) X { return X{Name: n} }

type T struct {
	A int
	b string
	C []int
}

func NewT(a int, b string) T { return T{A: a, b: b} }

type U struct {
	X int
	Y string
}

type V struct {
	a bool
	b int64
}

func NewV(a bool, b int64) V { return V{a, b} }
`

const kgoSource = `// Package msg lives in a directory whose name is not its package name and ends in a keyword.
package msg

type M struct {
	Topic string
	Key   []byte
	n     int
}

func New(topic string) M { return M{Topic: topic} }
`

const opSource = `// Package p (other/p) has the same name as the package goderive generates for.
package p

type G struct {
	A int
	b string
}

func NewG(a int) G { return G{A: a} }

type User struct {
	Name string
	Tags []string
}
`

const oextSource = `// Package ext (other/ext) has the same name as example.com/w/ext.
package ext

type T struct {
	a bool
	B string
}

func NewT(a bool) T { return T{a: a} }

type W struct {
	P *int
	Q map[string]int
}
`

// Render returns relative path -> content for the whole module.
func (w *World) Render() map[string]string {
	out := map[string]string{}
	out["go.mod"] = "module " + ModulePath + "\n\ngo 1.24\n"
	if w.HasExt {
		out["ext/ext.go"] = extSource
		out["other/ext/ext.go"] = oextSource
		if w.OextAlt {
			out["other/ext/ext.go"] = strings.Replace(oextSource, "\tB string\n}", "\tB string\n\tp *int\n}", 1)
		}
		out["msg-go/msg.go"] = kgoSource
		out["other/p/p.go"] = opSource
	}
	pname := "p"
	if w.PName != "" {
		pname = w.PName
	}
	// package p
	fileNames := []string{"a.go", "b.go", "c.go"}
	chunks := make([][]string, w.NFiles)
	uses := make([]map[string]bool, w.NFiles)
	for i := range uses {
		uses[i] = map[string]bool{}
	}
	for _, d := range w.Decls {
		f := d.File % w.NFiles
		chunks[f] = append(chunks[f], renderDecl(d, ""))
		declUses(d, uses[f])
	}
	var testChunks []string
	testUses := map[string]bool{}
	for _, c := range w.Calls {
		txt := w.renderCall(c, "")
		if c.Test {
			testChunks = append(testChunks, txt)
			callUses(c, testUses)
			continue
		}
		f := c.File % w.NFiles
		chunks[f] = append(chunks[f], txt)
		callUses(c, uses[f])
	}
	for _, u := range w.UserFuncs {
		if u.Pkg == "" {
			f := u.File % w.NFiles
			chunks[f] = append(chunks[f], u.Text)
		}
	}
	for i := 0; i < w.NFiles; i++ {
		src := renderFile(pname, uses[i], chunks[i], "")
		if i < len(w.Unfmt) && w.Unfmt[i] {
			src = unformat(src)
		}
		if i < len(w.LineDir) && w.LineDir[i] != "" {
			src = w.LineDir[i] + "\n" + src
		}
		out["p/"+fileNames[i]] = src
	}
	if len(testChunks) > 0 {
		out["p/p_test.go"] = renderFile(pname, testUses, testChunks, "")
	}
	if w.HasQ {
		var qchunks []string
		quses := map[string]bool{}
		for _, d := range w.QDecls {
			qchunks = append(qchunks, renderDecl(d, "q"))
			declUses(d, quses)
		}
		for _, c := range w.QCalls {
			qchunks = append(qchunks, w.renderCall(c, "q"))
			callUses(c, quses)
		}
		for _, u := range w.UserFuncs {
			if u.Pkg == "q" {
				qchunks = append(qchunks, u.Text)
			}
		}
		out["q/q.go"] = renderFile("q", quses, qchunks, "q")
	}
	if w.Twin > 0 {
		out["twin/p/t.go"] = w.twinSource(pname)
	}
	for _, k := range sortedKeys(w.RawFiles) {
		v := w.RawFiles[k]
		if k == "p/zz_generic.go" {
			// its derive calls follow the prefix map like every other call of the world
			for _, pl := range []string{"equal", "gostring", "compare"} {
				v = strings.ReplaceAll(v, PluginPrefix[pl]+"Gen(", "\x00"+pl+"\x00Gen(")
			}
			for _, pl := range []string{"equal", "gostring", "compare"} {
				v = strings.ReplaceAll(v, "\x00"+pl+"\x00", w.prefixOf(pl))
			}
		}
		if strings.HasPrefix(k, "p/") && strings.HasPrefix(v, "package p\n") {
			v = "package " + pname + "\n" + strings.TrimPrefix(v, "package p\n")
		}
		if strings.HasPrefix(k, "p/") && strings.HasPrefix(v, "package p_test\n") {
			v = "package " + pname + "_test\n" + strings.TrimPrefix(v, "package p_test\n")
		}
		out[k] = v
	}
	return out
}

func sortedKeys(m map[string]string) []string {
	ks := make([]string, 0, len(m))
	for k := range m {
		ks = append(ks, k)
	}
	sort.Strings(ks)
	return ks
}

func declUses(d *Decl, set map[string]bool) {
	if d.Under != nil {
		d.Under.uses(set)
	}
	for _, f := range d.Fields {
		f.Ty.uses(set)
	}
}

func callUses(c *Call, set map[string]bool) {
	if c.Pair != nil {
		callUses(c.Pair, set)
	}
	for _, a := range c.Args {
		if a.Nested != nil {
			callUses(a.Nested, set)
		} else if a.Ty != nil && a.Lit == "" {
			a.Ty.uses(set)
		}
	}
	if c.Curried != nil {
		if c.Curried.Nested != nil {
			callUses(c.Curried.Nested, set)
		} else if c.Curried.Ty != nil {
			c.Curried.Ty.uses(set)
		}
	}
}

func renderDecl(d *Decl, from string) string {
	if !d.Struct {
		return fmt.Sprintf("type %s %s\n", d.Name, d.Under.Str(from))
	}
	var sb strings.Builder
	fmt.Fprintf(&sb, "// %s is a generated type.\ntype %s struct {\n", d.Name, d.Name)
	for _, f := range d.Fields {
		if f.Embedded {
			fmt.Fprintf(&sb, "\t%s\n", f.Ty.Str(from))
		} else {
			fmt.Fprintf(&sb, "\t%s %s // field\n", f.Name, f.Ty.Str(from))
		}
	}
	sb.WriteString("}\n")
	return sb.String()
}

func renderFile(pkgName string, uses map[string]bool, chunks []string, from string) string {
	var sb strings.Builder
	fmt.Fprintf(&sb, "package %s\n\n", pkgName)
	var imps []string
	if uses["ext"] {
		imps = append(imps, fmt.Sprintf("\t%q", ModulePath+"/ext"))
	}
	if uses["oext"] {
		imps = append(imps, fmt.Sprintf("\toext %q", ModulePath+"/other/ext"))
	}
	if uses["op"] {
		imps = append(imps, fmt.Sprintf("\top %q", ModulePath+"/other/p"))
	}
	if uses["kgo"] {
		imps = append(imps, fmt.Sprintf("\tkgo %q", ModulePath+"/msg-go"))
	}
	if uses[""] && from == "q" {
		imps = append(imps, fmt.Sprintf("\tp %q", ModulePath+"/p"))
	}
	if uses["unsafe"] {
		imps = append(imps, "\t\"unsafe\"")
	}
	if len(imps) > 0 {
		sb.WriteString("import (\n" + strings.Join(imps, "\n") + "\n)\n\n")
	}
	sb.WriteString(strings.Join(chunks, "\n"))
	src := sb.String()
	if b, err := format.Source([]byte(src)); err == nil {
		return string(b)
	}
	return src
}

// unformat makes a gofmt-clean file deliberately not gofmt-clean without
// changing its meaning: extra blank lines, spaces instead of tabs, trailing
// spaces before line comments, a trailing comment without newline handling.
func unformat(src string) string {
	lines := strings.Split(src, "\n")
	// the specs of a parenthesised import group in reverse (not gofmt's) order
	for i := 0; i < len(lines); i++ {
		if lines[i] == "import (" {
			j := i + 1
			for j < len(lines) && lines[j] != ")" {
				j++
			}
			for a, b := i+1, j-1; a < b; a, b = a+1, b-1 {
				lines[a], lines[b] = lines[b], lines[a]
			}
			break
		}
	}
	var out []string
	for i, l := range lines {
		if strings.HasPrefix(l, "\t") {
			l = "    " + strings.TrimPrefix(l, "\t")
		}
		if strings.HasPrefix(l, "func ") || strings.HasPrefix(l, "type ") {
			out = append(out, "", "")
		}
		if strings.Contains(l, " // field") {
			l = strings.Replace(l, " // field", "       // field", 1)
		}
		out = append(out, l)
		if i == 0 {
			out = append(out, "", "// detached comment", "")
		}
	}
	return strings.Join(out, "\n") + "\n\n\n// trailing comment\n"
}

// twinTypes: declarations of the twin package. It has the package name of p
// and type names p uses too (S0, S1, S2, N0), with other definitions: anything
// goderive remembers per process under a name instead of an identity mixes
// the two packages up.
var twinTypes = []string{
	"type S0 struct {\n\tA []int\n\tB map[string]int\n}\n\ntype S1 struct {\n\tV S0\n\tW S2\n\tn *S1\n}\n\ntype S2 struct {\n\tF float64\n\tG [2]string\n}\n\ntype N0 []string\n",
	"type S0 struct {\n\tA int\n\tB string\n}\n\ntype S1 struct {\n\tV S0\n\tL []S0\n\tM map[string]S0\n\tW S2\n}\n\ntype S2 struct {\n\tP *S0\n\tQ N0\n}\n\ntype N0 map[int]bool\n",
	"type S0 []string\n\ntype S1 struct {\n\tV S0\n\tP *S0\n\tW S2\n\tK N0\n}\n\ntype S2 struct {\n\tc complex128\n\tS0\n}\n\ntype N0 float64\n",
}

func (w *World) twinSource(pname string) string {
	var sb strings.Builder
	sb.WriteString("// Package " + pname + " (twin/p) is generated for in the same run as p, has its name and declares types of the same names.\npackage " + pname + "\n\n")
	sb.WriteString(twinTypes[(w.Twin-1)%len(twinTypes)])
	fmt.Fprintf(&sb, "\nfunc tw0(a, b *S1) bool { return %s(a, b) }\n", w.prefixOf("equal"))
	fmt.Fprintf(&sb, "\nfunc tw1(a, b *S1) int { return %s(a, b) }\n", w.prefixOf("compare"))
	fmt.Fprintf(&sb, "\nfunc tw2(a *S1) uint64 { return %s(a) }\n", w.prefixOf("hash"))
	fmt.Fprintf(&sb, "\nfunc tw3(a *S1) *S1 { return %s(a) }\n", w.prefixOf("clone"))
	fmt.Fprintf(&sb, "\nfunc tw4(a, b *S1) { %s(a, b) }\n", w.prefixOf("deepcopy"))
	// the nested call of the pending-name cluster, letter for letter: both packages have the same pending text in their first pass
	fmt.Fprintf(&sb, "\nfunc tw5(m map[string]int) []string { return %s(%s(m)) }\n", w.prefixOf("sort"), w.prefixOf("keys"))
	return sb.String()
}
