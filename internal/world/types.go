// Package world generates the workload of gensim: small Go modules with
// derive calls, drawn from a tape so that 0 is always the simplest choice.
// A World is a data structure (named types, derive calls, file layout,
// flags); Render turns it into files. Edit scripts (C07), collision
// profiles (C11), prefix maps (C12) and unsupported constituents (C09) are
// transformations of that structure.
package world

import (
	"fmt"
	"regexp"
	"strings"
)

// Ty is a type expression.
type Ty struct {
	K    string // basic | named | ptr | slice | array | map | chan | func | iface | unsafeptr | emptystruct
	Name string // basic or named type name
	Pkg  string // "" = package p; "ext"; "oext"; "q"
	Elem *Ty
	Key  *Ty
	N    int
	// func types
	Params  []*Ty
	Results []*Ty
	PBase   string // base of generated parameter names (default "a")
	PNames  int    // 0 named (a0, a1, ...), 1 unnamed, 2 blank (_), 3 generator-like names (f, err, out, this)
}

func Basic(n string) *Ty         { return &Ty{K: "basic", Name: n} }
func Named(pkg, n string) *Ty    { return &Ty{K: "named", Name: n, Pkg: pkg} }
func Ptr(e *Ty) *Ty              { return &Ty{K: "ptr", Elem: e} }
func Slice(e *Ty) *Ty            { return &Ty{K: "slice", Elem: e} }
func Array(n int, e *Ty) *Ty     { return &Ty{K: "array", N: n, Elem: e} }
func Map(k, v *Ty) *Ty           { return &Ty{K: "map", Key: k, Elem: v} }
func Func(ps, rs []*Ty) *Ty      { return &Ty{K: "func", Params: ps, Results: rs} }
func EmptyStruct() *Ty           { return &Ty{K: "emptystruct"} }
func Chan(dir string, e *Ty) *Ty { return &Ty{K: "chan", Name: dir, Elem: e} }

var Error = Basic("error")

// String renders the type as seen from package `from` ("" = p).
func (t *Ty) String() string { return t.Str("") }

var aliasRE = regexp.MustCompile(`\b(byte|rune)\b`)

// ID is the type as written with the predeclared aliases resolved (byte is
// uint8, rune is int32): two types with the same ID are identical.
func (t *Ty) ID() string {
	return aliasRE.ReplaceAllStringFunc(t.Str(""), func(m string) string {
		if m == "byte" {
			return "uint8"
		}
		return "int32"
	})
}

func (t *Ty) Str(from string) string {
	switch t.K {
	case "basic":
		return t.Name
	case "named":
		if t.Pkg == from {
			return t.Name
		}
		if t.Pkg == "" {
			return "p." + t.Name
		}
		return t.Pkg + "." + t.Name
	case "ptr":
		return "*" + t.Elem.Str(from)
	case "slice":
		return "[]" + t.Elem.Str(from)
	case "array":
		return fmt.Sprintf("[%d]%s", t.N, t.Elem.Str(from))
	case "map":
		return "map[" + t.Key.Str(from) + "]" + t.Elem.Str(from)
	case "emptystruct":
		return "struct{}"
	case "chan":
		switch t.Name {
		case "recv":
			return "<-chan " + t.Elem.Str(from)
		case "send":
			return "chan<- " + t.Elem.Str(from)
		}
		return "chan " + t.Elem.Str(from)
	case "iface":
		return "interface{}"
	case "unsafeptr":
		return "unsafe.Pointer"
	case "func":
		ps := make([]string, len(t.Params))
		for i, p := range t.Params {
			switch t.PNames {
			case 0:
				base := t.PBase
				if base == "" {
					base = "a"
				}
				ps[i] = fmt.Sprintf("%s%d %s", base, i, p.Str(from))
			case 2:
				ps[i] = "_ " + p.Str(from)
			case 3:
				ps[i] = []string{"f", "err", "out", "this", "that", "v0", "in", "res"}[i%8] + " " + p.Str(from)
			default:
				ps[i] = p.Str(from)
			}
		}
		s := "func(" + strings.Join(ps, ", ") + ")"
		switch len(t.Results) {
		case 0:
		case 1:
			s += " " + t.Results[0].Str(from)
		default:
			rs := make([]string, len(t.Results))
			for i, r := range t.Results {
				rs[i] = r.Str(from)
			}
			s += " (" + strings.Join(rs, ", ") + ")"
		}
		return s
	}
	return "/*?*/int"
}

// uses reports the packages a type mentions.
func (t *Ty) uses(set map[string]bool) {
	if t == nil {
		return
	}
	if t.K == "named" {
		set[t.Pkg] = true
	}
	if t.K == "unsafeptr" {
		set["unsafe"] = true
	}
	t.Elem.uses(set)
	t.Key.uses(set)
	for _, p := range t.Params {
		p.uses(set)
	}
	for _, r := range t.Results {
		r.uses(set)
	}
}

// Field of a struct declaration.
type Field struct {
	Name     string
	Ty       *Ty
	Embedded bool
}

// Decl is a named type of package p (or q).
type Decl struct {
	Name     string
	Struct   bool
	Fields   []Field
	Under    *Ty // for non-struct named types
	File     int
	building bool
}

// World is one generated module.
type World struct {
	Decls       []*Decl
	Calls       []*Call
	QCalls      []*Call // calls in package q (uses types of p through import)
	QDecls      []*Decl
	HasQ        bool
	HasExt      bool
	NFiles      int      // source files of p (non-test): 1..3
	Unfmt       []bool   // per file: deliberately not gofmt-formatted
	LineDir     []string // per file: //line directive before the package clause ("" = none)
	UserFuncs   []UserFunc
	Prefix      map[string]string // plugin -> prefix (nil = default "derive" + Plugin name)
	GlobalPfx   string            // -prefix value ("" = derive)
	Flags       []string          // goderive flags
	Negative    string            // description of the spliced unsupported constituent (C09)
	RawFiles    map[string]string // extra verbatim files (relative path -> content)
	PName       string            // package name of p ("" = p); the directory and import path stay .../p
	OextAlt     bool              // other/ext.T has one more (unexported pointer) field: an edit in a package p reaches only through ext.X
	NestedGroup int               // 1 + index of the nested prefix group whose plugins are called side by side (0 = none)
	PrefixRot   int               // rotation of the -pluginprefix pairs on the command line
	Twin        int               // > 0: a second generated-for package twin/p with p's package name and type names (variant)
}

// UserFunc is a hand-written function (possibly with a derive-like name).
type UserFunc struct {
	Pkg  string // "" = p, "q"
	Name string
	Text string // full declaration + a call site so that the name counts as used
	File int
}

func (w *World) decl(name string) *Decl {
	for _, d := range w.Decls {
		if d.Name == name {
			return d
		}
	}
	for _, d := range w.QDecls {
		if d.Name == name {
			return d
		}
	}
	return nil
}

// ---- predicates over types (what the plugins document as supported) ------

var extStructs = map[string][]Field{
	// must match extSource / oextSource in render.go
	"ext.T":  {{Name: "A", Ty: Basic("int")}, {Name: "b", Ty: Basic("string")}, {Name: "C", Ty: Slice(Basic("int"))}},
	"ext.U":  {{Name: "X", Ty: Basic("int")}, {Name: "Y", Ty: Basic("string")}},
	"ext.V":  {{Name: "a", Ty: Basic("bool")}, {Name: "b", Ty: Basic("int64")}},
	"ext.X":  {{Name: "Name", Ty: Basic("string")}, {Name: "ttl", Ty: Basic("int64")}, {Name: "at", Ty: Named("oext", "T")}, {Name: "when", Ty: Slice(Basic("int"))}},
	"oext.T": {{Name: "a", Ty: Basic("bool")}, {Name: "B", Ty: Basic("string")}},
	"oext.W": {{Name: "P", Ty: Ptr(Basic("int"))}, {Name: "Q", Ty: Map(Basic("string"), Basic("int"))}},
	// package example.com/w/other/p has the same package name as the package under generation
	"op.G":    {{Name: "A", Ty: Basic("int")}, {Name: "b", Ty: Basic("string")}},
	"op.User": {{Name: "Name", Ty: Basic("string")}, {Name: "Tags", Ty: Slice(Basic("string"))}},
	// package msg in the directory msg-go: the last path element is not the package name and ends in a keyword
	"kgo.M": {{Name: "Topic", Ty: Basic("string")}, {Name: "Key", Ty: Slice(Basic("byte"))}, {Name: "n", Ty: Basic("int")}},
}

// isExtPkg: the fixed imported packages of a world (as opposed to p and q).
func isExtPkg(p string) bool { return p == "ext" || p == "oext" || p == "op" || p == "kgo" }

func (w *World) fieldsOf(t *Ty) ([]Field, bool) {
	if t.K != "named" {
		return nil, false
	}
	if isExtPkg(t.Pkg) {
		f, ok := extStructs[t.Pkg+"."+t.Name]
		if ok && w.OextAlt && t.Pkg == "oext" && t.Name == "T" {
			f = append(append([]Field{}, f...), Field{Name: "p", Ty: Ptr(Basic("int"))})
		}
		return f, ok
	}
	d := w.decl(t.Name)
	if d == nil || !d.Struct {
		return nil, false
	}
	return d.Fields, true
}

func (w *World) under(t *Ty) *Ty {
	if t.K == "named" && !isExtPkg(t.Pkg) {
		if d := w.decl(t.Name); d != nil && !d.Struct {
			return d.Under
		}
	}
	return t
}

// Comparable: usable with == and as a map key.
func (w *World) Comparable(t *Ty) bool { return w.comparable(t, 0) }

func (w *World) comparable(t *Ty, depth int) bool {
	if depth > 6 {
		return false
	}
	switch t.K {
	case "basic":
		return t.Name != "error"
	case "ptr":
		return true
	case "array":
		return w.comparable(t.Elem, depth+1)
	case "emptystruct":
		return true
	case "named":
		if d := w.decl(t.Name); d != nil && t.Pkg == "" && d.building {
			return false
		}
		if fs, ok := w.fieldsOf(t); ok {
			for _, f := range fs {
				if !w.comparable(f.Ty, depth+1) {
					return false
				}
			}
			return true
		}
		u := w.under(t)
		if u == t {
			return false
		}
		return w.comparable(u, depth+1)
	}
	return false
}

// hasPtr reports whether a pointer occurs anywhere inside (used to keep
// pointer-valued map keys and set elements out of the supported grammar).
func (w *World) hasKind(t *Ty, kinds map[string]bool, depth int) bool {
	if t == nil || depth > 6 {
		return false
	}
	if kinds[t.K] {
		return true
	}
	if t.K == "named" {
		if fs, ok := w.fieldsOf(t); ok {
			for _, f := range fs {
				if f.Ty.K == "ptr" || f.Ty.K == "slice" {
					// recursion through pointers/slices: look one level only
					if kinds[f.Ty.K] {
						return true
					}
					continue
				}
				if w.hasKind(f.Ty, kinds, depth+1) {
					return true
				}
			}
			return false
		}
		u := w.under(t)
		if u != t {
			return w.hasKind(u, kinds, depth+1)
		}
		return false
	}
	return w.hasKind(t.Elem, kinds, depth+1) || w.hasKind(t.Key, kinds, depth+1)
}

// ValueKey: key types the properties name: basic, named basic, comparable
// struct without pointers, array of those.
func (w *World) ValueKey(t *Ty) bool {
	return w.Comparable(t) && !w.hasKind(t, map[string]bool{"ptr": true, "slice": true, "map": true}, 0)
}

// AllExported: every struct reachable (by value) has exported fields only
// and is not from a foreign package with unexported fields (GoString).
func (w *World) AllExported(t *Ty, depth int) bool {
	if t == nil || depth > 6 {
		return true
	}
	if t.K == "named" {
		if fs, ok := w.fieldsOf(t); ok {
			for _, f := range fs {
				if f.Name[0] >= 'a' && f.Name[0] <= 'z' || f.Name[0] == '_' {
					return false
				}
				if f.Ty.K == "named" && f.Ty.Name == t.Name && f.Ty.Pkg == t.Pkg {
					continue
				}
				if !w.AllExported(stripIndirections(f.Ty), depth+1) {
					return false
				}
			}
			return true
		}
		if t.Name[0] >= 'a' && t.Name[0] <= 'z' {
			return true // unexported named basic: fine inside its own package
		}
		return true
	}
	return w.AllExported(t.Elem, depth+1) && w.AllExported(t.Key, depth+1)
}

func stripIndirections(t *Ty) *Ty {
	for t.K == "ptr" || t.K == "slice" || t.K == "array" {
		t = t.Elem
	}
	return t
}

// Ordered basic types (for the natural < of Min/Max/Sort).
func (w *World) OrderedBasic(t *Ty) bool {
	u := w.under(t)
	if u.K != "basic" {
		return false
	}
	switch u.Name {
	case "bool", "error", "complex128", "complex64", "uintptr":
		return false
	}
	return true
}

// assignKey: two argument types with the same assignKey are mutually
// assignable in goderive's sense (types.AssignableTo): a named type whose
// underlying type is not a struct or basic is assignable to/from its
// unnamed underlying type.
func (w *World) assignKey(t *Ty) string {
	if t.K == "named" && !isExtPkg(t.Pkg) {
		if d := w.decl(t.Name); d != nil && !d.Struct && d.Under.K != "basic" {
			return "~" + d.Under.ID()
		}
	}
	if t.K == "chan" {
		return "~chan " + t.Elem.ID()
	}
	if t.K == "func" {
		return "~" + t.ID()
	}
	if t.K == "slice" || t.K == "map" || t.K == "ptr" || t.K == "array" {
		return "~" + t.ID()
	}
	return t.ID()
}

// assignable mirrors goderive's notion of "same argument type"
// (types.AssignableTo in either direction) for the types this generator
// draws: identical, or one side is a named type whose underlying type is a
// non-basic, non-struct type identical to the other (unnamed) side; channel
// types that differ only in direction count as well.
func (w *World) assignable(a, b *Ty) bool {
	if a.ID() == b.ID() {
		return true
	}
	ua, ub := w.under(a), w.under(b)
	if ua != a && ua.K != "basic" && b.K != "named" && ua.ID() == b.ID() {
		return true
	}
	if ub != b && ub.K != "basic" && a.K != "named" && ub.ID() == a.ID() {
		return true
	}
	if a.K == "chan" && b.K == "chan" && a.Elem.ID() == b.Elem.ID() {
		return true
	}
	if a.K == "func" && b.K == "func" {
		// parameter names do not matter for identity
		x, y := *a, *b
		x.PNames, y.PNames = 1, 1
		return x.ID() == y.ID()
	}
	return false
}
