package world

import "fmt"

// Clusters are small, deliberately shaped groups of calls that random drawing
// reaches too rarely: each is a supported use (no clash by the statement of
// C11), so a goderive that rejects or mis-resolves one violates C01 / C11.

// curriedPair: the two-argument and the curried one-argument form of one
// plugin on one type, under different names (two functions, no clash).
func (g *gen) curriedPair() {
	w, t := g.w, g.t
	T := g.anyTy()
	plugin := []string{"equal", "compare"}[t.Intn(2)]
	two := g.simple(plugin, T)
	one := g.simple(plugin, T)
	if two == nil || one == nil {
		return
	}
	b := one.Args[1]
	one.Args = one.Args[:1]
	one.Curried = &b
	cs := []*Call{two, one}
	if t.Bool() {
		cs = []*Call{one, two}
	}
	for _, c := range cs {
		if f := g.finish(c, ""); f != nil {
			w.Calls = append(w.Calls, f)
		}
	}
}

// arityFamily: calls of one plugin whose argument lists are prefixes of each
// other, or agree in the first position only (tuple / compose / do).
func (g *gen) arityFamily() {
	w, t := g.w, g.t
	a, b, c := g.leaf(), Slice(g.leaf()), Ptr(Basic("int"))
	var cs []*Call
	switch t.Intn(3) {
	case 0: // tuple(a), tuple(a, b), tuple(a, c)
		cs = append(cs,
			&Call{Plugin: "tuple", Args: []Arg{p("a0", a)}, NRes: 1},
			&Call{Plugin: "tuple", Args: []Arg{p("a0", a), p("a1", b)}, NRes: 1},
			&Call{Plugin: "tuple", Args: []Arg{p("a0", a), p("a1", c)}, NRes: 1})
	case 1: // do(f, g), do(f, g, h)
		f := func(r *Ty) *Ty { return Func(nil, []*Ty{r, Error}) }
		cs = append(cs,
			&Call{Plugin: "do", Args: []Arg{p("f0", f(a)), p("f1", f(b))}, NRes: 3},
			&Call{Plugin: "do", Args: []Arg{p("f0", f(a)), p("f1", f(b)), p("f2", f(c))}, NRes: 4},
			&Call{Plugin: "do", Args: []Arg{p("f0", f(a)), p("f1", f(c))}, NRes: 3})
	default: // contains([]T, T) next to contains([]T, ...) is not possible; use min: ([]T, T) and (T, T)
		e := Basic([]string{"int", "string", "float64"}[t.Intn(3)])
		cs = append(cs,
			&Call{Plugin: "min", Args: []Arg{p("l", Slice(e)), p("d", e)}, NRes: 1},
			&Call{Plugin: "max", Args: []Arg{p("l", Slice(e)), p("d", e)}, NRes: 1},
			&Call{Plugin: "min", Args: []Arg{p("a", e), p("b", e)}, NRes: 1})
	}
	// a tape-drawn rotation: which list is registered first matters
	k := t.Intn(len(cs))
	cs = append(cs[k:], cs[:k]...)
	for _, c := range cs {
		if f := g.finish(c, ""); f != nil {
			w.Calls = append(w.Calls, f)
		}
	}
}

// pendingNameCluster: package p has a nested call under the bare plugin names
// (typable only in a later pass), package q needs helpers of the same plugins.
func (g *gen) pendingNameCluster() {
	w, t := g.w, g.t
	k := Basic([]string{"string", "int"}[t.Intn(2)])
	m := Map(k, Basic("int"))
	inner := &Call{Plugin: "keys", Args: []Arg{p("m", m)}, NRes: 1, ResTy: Slice(k)}
	outer := &Call{Plugin: "sort", Args: []Arg{{Nested: inner, Ty: Slice(k)}}, NRes: 1}
	// bare names unless taken
	if !g.taken("", "sort", "") && !g.taken("", "keys", "") {
		inner.Suffix, outer.Suffix = "", ""
		if f := g.finishNamed(outer, ""); f != nil {
			w.Calls = append(w.Calls, f)
		}
	}
	// q: compare / hash of a map needs deriveSort and deriveKeys helpers
	S := &Decl{Name: fmt.Sprintf("Q%d", g.id()), Struct: true, Fields: []Field{{Name: "M", Ty: Map(Basic("string"), Basic("int"))}, {Name: "N", Ty: Map(Basic("int"), Basic("bool"))}}}
	w.QDecls = append(w.QDecls, S)
	plugin := []string{"compare", "hash"}[t.Intn(2)]
	if c := g.simple(plugin, Ptr(Named("q", S.Name))); c != nil {
		if f := g.finish(c, "q"); f != nil {
			w.QCalls = append(w.QCalls, f)
			w.HasQ = true
		}
	}
}

// finishNamed is finish for a call tree whose suffixes are already chosen.
func (g *gen) finishNamed(c *Call, pkg string) *Call {
	c.Pkg = pkg
	for i := range c.Args {
		if n := c.Args[i].Nested; n != nil {
			if g.finishNamed(n, pkg) == nil {
				return nil
			}
		}
	}
	exact := g.w.exactKey(c)
	if g.taken(pkg, c.Plugin, c.Suffix) {
		return nil
	}
	for _, prev := range g.prev {
		if prev.pkg != pkg || prev.plugin != c.Plugin || len(prev.args) != len(c.Args) {
			continue
		}
		all := true
		for i, a := range c.Args {
			if !g.w.assignable(a.Ty, prev.args[i]) {
				all = false
			}
		}
		if all {
			return nil // these argument types already have a function under another name
		}
	}
	g.used[pkg+"/"+c.Plugin+c.Suffix] = exact
	var tys []*Ty
	for _, a := range c.Args {
		tys = append(tys, a.Ty)
	}
	g.prev = append(g.prev, prevCall{pkg, c.Plugin, exact, c.Suffix, tys})
	c.ID = g.id()
	c.File = g.t.Intn(g.w.NFiles)
	return c
}

// AddNestedConflict adds two nested calls of one plugin under ONE name with
// different types: a conflict that can only be detected (and renamed) in the
// pass after the inner functions exist.
func AddNestedConflict(w *World, id int, plugin string) string {
	mk := func(sfx string, k *Ty, n int) *Call {
		inner := &Call{Plugin: "keys", Suffix: sfx, Args: []Arg{{Param: "m", Ty: Map(k, Basic("bool"))}}, NRes: 1, ID: id + n, Pkg: ""}
		return &Call{Plugin: plugin, Suffix: "NC", Args: []Arg{{Nested: inner, Ty: Slice(k)}}, NRes: 1, ID: id + n + 1, File: n % w.NFiles, Pkg: ""}
	}
	w.Calls = append(w.Calls, mk("NA", Basic("string"), 10), mk("NB", Basic("int64"), 20))
	return fmt.Sprintf("nested conflict: %sNC(deriveKeysNA(map[string]bool)) and %sNC(deriveKeysNB(map[int64]bool))", PluginPrefix[plugin], PluginPrefix[plugin])
}

// AddInnerConflict: the conflict sits on the INNER calls (one keys name for
// two map types) and, one pass later, on the outer calls as well: a rename of
// the first pass decides the argument type of a call of the second.
func AddInnerConflict(w *World, id int, plugin string) string {
	mk := func(k *Ty, n int) *Call {
		inner := &Call{Plugin: "keys", Suffix: "NI", Args: []Arg{{Param: "m", Ty: Map(k, Basic("bool"))}}, NRes: 1, ID: id + n, Pkg: ""}
		return &Call{Plugin: plugin, Suffix: "NO", Args: []Arg{{Nested: inner, Ty: Slice(k)}}, NRes: 1, ID: id + n + 1, File: n % w.NFiles, Pkg: ""}
	}
	w.Calls = append(w.Calls, mk(Basic("string"), 10), mk(Basic("int64"), 20))
	return fmt.Sprintf("inner conflict: %sNO(deriveKeysNI(map[string]bool)) and %sNO(deriveKeysNI(map[int64]bool))", PluginPrefix[plugin], PluginPrefix[plugin])
}

// sameNamedFields: one struct of package p with fields of the same-named
// types of the two same-named imported packages (ext.T holds a slice,
// other/ext.T is comparable), in a tape-drawn order, under one or two plugins
// that decide per field type how to treat it.
func (g *gen) sameNamedFields() {
	w, t := g.w, g.t
	fs := []Field{{Name: "A", Ty: Named("oext", "T")}, {Name: "B", Ty: Named("ext", "T")}}
	if t.Bool() {
		fs[0].Ty, fs[1].Ty = fs[1].Ty, fs[0].Ty
	}
	switch t.Intn(3) {
	case 1:
		fs = append(fs, Field{Name: "C", Ty: Slice(Named("oext", "T"))})
	case 2:
		fs = append([]Field{{Name: "Z", Ty: Map(Basic("string"), Named("ext", "T"))}}, fs...)
	}
	S := &Decl{Name: fmt.Sprintf("SN%d", g.id()), Struct: true, Fields: fs}
	w.Decls = append(w.Decls, S)
	plugins := []string{"equal", "compare", "hash", "clone", "deepcopy"}
	k := t.Intn(len(plugins))
	for i := 0; i < 1+t.Intn(2); i++ {
		if c := g.simple(plugins[(k+i)%len(plugins)], Ptr(Named("", S.Name))); c != nil {
			if f := g.finish(c, ""); f != nil {
				w.Calls = append(w.Calls, f)
			}
		}
	}
}

// twin switches the twin package on (see twinSource) and makes package p ask
// the questions the twin asks too: a struct holding p's own S0 (and another of
// p's named types) by value, in a slice and in a map, under the plugins the
// twin uses.
func (g *gen) twin() {
	w, t := g.w, g.t
	w.Twin = 1 + t.Intn(3)
	var names []string
	for _, d := range w.Decls {
		switch d.Name {
		case "S0", "S1", "S2", "N0":
			names = append(names, d.Name)
		}
	}
	if len(names) == 0 {
		return
	}
	a := Named("", names[t.Intn(len(names))])
	b := Named("", names[t.Intn(len(names))])
	S := &Decl{Name: fmt.Sprintf("SH%d", g.id()), Struct: true, Fields: []Field{{Name: "V", Ty: a}, {Name: "L", Ty: Slice(b)}, {Name: "M", Ty: Map(Basic("string"), a)}}}
	w.Decls = append(w.Decls, S)
	plugins := []string{"equal", "compare", "hash", "clone", "deepcopy"}
	k := t.Intn(len(plugins))
	for i := 0; i < 1+t.Intn(3); i++ {
		if c := g.simple(plugins[(k+i)%len(plugins)], Ptr(Named("", S.Name))); c != nil {
			if f := g.finish(c, ""); f != nil {
				w.Calls = append(w.Calls, f)
			}
		}
	}
}

// nestedGroupCalls: calls of every plugin of one nested prefix group
// (overrides that make one prefix a proper prefix of another), one after the
// other in one file and in a drawn order: which plugin handled the previous
// call must not matter for the next one.
func (g *gen) nestedGroupCalls() {
	w, t := g.w, g.t
	gi := t.Intn(len(nestedPrefixGroups))
	grp := nestedPrefixGroups[gi]
	file := t.Intn(w.NFiles)
	rot := t.Intn(len(grp))
	saved := g.p.Plugins
	defer func() { g.p.Plugins = saved }()
	n := 0
	for k := range grp {
		pl := grp[(k+rot)%len(grp)][0]
		g.p.Plugins = []string{pl}
		for try := 0; try < 3; try++ {
			if c := g.genCall(""); c != nil {
				c.File = file
				c.Test = false
				w.Calls = append(w.Calls, c)
				n++
				break
			}
		}
	}
	if n >= 2 {
		w.NestedGroup = gi + 1
	}
}

// namedBasicElems: list helpers over slices whose element type is a named
// basic type (the helper a plugin asks another plugin for must be asked for
// the named type, not for its underlying basic type). bool and complex are
// only given to sort / unique / contains, which order them through Compare or
// need no order.
func (g *gen) namedBasicElems() {
	w, t := g.w, g.t
	under := []string{"bool", "complex128", "string", "int", "float64", "uint8", "float32"}[t.Intn(7)]
	d := &Decl{Name: fmt.Sprintf("NE%d", g.id()), Under: Basic(under), File: t.Intn(w.NFiles)}
	w.Decls = append(w.Decls, d)
	e := Named("", d.Name)
	ordered := under != "bool" && under != "complex128"
	cands := []*Call{
		{Plugin: "sort", Args: []Arg{{Param: "l", Ty: Slice(e)}}, NRes: 1, ResTy: Slice(e)},
		{Plugin: "unique", Args: []Arg{{Param: "l", Ty: Slice(e)}}, NRes: 1, ResTy: Slice(e)},
		{Plugin: "contains", Args: []Arg{{Param: "l", Ty: Slice(e)}, {Param: "e", Ty: e}}, NRes: 1},
	}
	if ordered {
		cands = append(cands,
			&Call{Plugin: "min", Args: []Arg{{Param: "l", Ty: Slice(e)}, {Param: "d", Ty: e}}, NRes: 1},
			&Call{Plugin: "max", Args: []Arg{{Param: "a", Ty: e}, {Param: "b", Ty: e}}, NRes: 1},
			&Call{Plugin: "set", Args: []Arg{{Param: "l", Ty: Slice(e)}}, NRes: 1})
	}
	k := t.Intn(len(cands))
	for i := 0; i < 1+t.Intn(3); i++ {
		if f := g.finish(cands[(k+i)%len(cands)], ""); f != nil {
			w.Calls = append(w.Calls, f)
		}
	}
}
