package world

import (
	"fmt"
	"strings"
)

// PluginPrefix is the default function prefix of every plugin.
var PluginPrefix = map[string]string{
	"equal": "deriveEqual", "compare": "deriveCompare", "fmap": "deriveFmap", "join": "deriveJoin", "keys": "deriveKeys",
	"sort": "deriveSort", "deepcopy": "deriveDeepCopy", "set": "deriveSet", "min": "deriveMin", "max": "deriveMax",
	"contains": "deriveContains", "intersect": "deriveIntersect", "union": "deriveUnion", "filter": "deriveFilter",
	"takewhile": "deriveTakeWhile", "unique": "deriveUnique", "flip": "deriveFlip", "toerror": "deriveToError",
	"curry": "deriveCurry", "uncurry": "deriveUncurry", "all": "deriveAll", "any": "deriveAny", "tuple": "deriveTuple",
	"gostring": "deriveGoString", "compose": "deriveCompose", "do": "deriveDo", "pipeline": "derivePipeline", "dup": "deriveDup",
	"clone": "deriveClone", "hash": "deriveHash", "mem": "deriveMem", "traverse": "deriveTraverse", "apply": "deriveApply",
}

// AllPlugins in a fixed order (index 0 = simplest).
var AllPlugins = []string{
	"equal", "compare", "hash", "clone", "deepcopy", "gostring", "keys", "sort", "set", "unique", "contains", "min", "max",
	"union", "intersect", "fmap", "join", "filter", "takewhile", "all", "any", "curry", "uncurry", "flip", "apply", "tuple",
	"compose", "mem", "traverse", "toerror", "do", "pipeline", "dup",
}

// Arg of a derive call: a wrapper parameter or a nested derive call.
type Arg struct {
	Param  string
	Ty     *Ty
	Nested *Call
	Lit    string // literal expression (C09: non-function arguments etc.)
}

// Call is one derive call site.
type Call struct {
	Plugin  string
	Suffix  string // name = prefix(plugin) + Suffix
	Args    []Arg
	Curried *Arg // second-stage argument for the one-argument curried form: name(a)(b)
	NRes    int  // number of results of the call expression (after currying)
	Form    int  // 0 function body, 1 package-level var, 2 closure
	File    int  // index of the source file of p
	Test    bool // lives in the _test.go file
	ID      int
	ResTy   *Ty    // result type when it feeds an outer call
	Pkg     string // "" = p, "q"
	Pair    *Call  // a second single-result call rendered on the same source line
}

func (w *World) prefixOf(plugin string) string {
	if w.Prefix != nil {
		if p, ok := w.Prefix[plugin]; ok {
			return p
		}
	}
	p := PluginPrefix[plugin]
	if w.GlobalPfx != "" {
		p = strings.Replace(p, "derive", w.GlobalPfx, 1)
	}
	return p
}

// FuncName of the call under the world's prefix map.
func (w *World) FuncName(c *Call) string { return w.prefixOf(c.Plugin) + c.Suffix }

func (w *World) argExpr(a Arg, from string) string {
	if a.Nested != nil {
		return w.callExpr(a.Nested, from)
	}
	if a.Lit != "" {
		return a.Lit
	}
	return a.Param
}

func (w *World) callExpr(c *Call, from string) string {
	as := make([]string, len(c.Args))
	for i, a := range c.Args {
		as[i] = w.argExpr(a, from)
	}
	s := w.FuncName(c) + "(" + strings.Join(as, ", ") + ")"
	if c.Curried != nil {
		s += "(" + w.argExpr(*c.Curried, from) + ")"
	}
	return s
}

func collectParams(c *Call, from string, out *[]string, seen map[string]bool) {
	add := func(a Arg) {
		if a.Nested != nil {
			collectParams(a.Nested, from, out, seen)
			return
		}
		if a.Lit != "" || seen[a.Param] {
			return
		}
		seen[a.Param] = true
		*out = append(*out, a.Param+" "+a.Ty.Str(from))
	}
	for _, a := range c.Args {
		add(a)
	}
	if c.Curried != nil {
		add(*c.Curried)
	}
}

// renderCall renders the declaration that contains the call site.
func (w *World) renderCall(c *Call, from string) string {
	var ps []string
	collectParams(c, from, &ps, map[string]bool{})
	expr := w.callExpr(c, from)
	lhs := ""
	if c.NRes > 0 {
		lhs = strings.Repeat("_, ", c.NRes-1) + "_ = "
	}
	if c.Pair != nil && c.NRes == 1 && c.Pair.NRes == 1 {
		// two calls on one source line
		var ps2 []string
		collectParams(c.Pair, from, &ps2, map[string]bool{})
		e2 := w.callExpr(c.Pair, from)
		for i, v := range ps2 {
			name := v[:strings.IndexByte(v, ' ')]
			e2 = replaceIdent(e2, name, name+"_2")
			ps2[i] = name + "_2" + v[strings.IndexByte(v, ' '):]
		}
		return fmt.Sprintf("func use%d(%s) {\n\t_, _ = %s, %s\n}\n", c.ID, strings.Join(append(ps, ps2...), ", "), expr, e2)
	}
	switch c.Form {
	case 1:
		// package-level: zero-valued package variables as arguments
		var sb strings.Builder
		var vars []string
		collectParams(c, from, &vars, map[string]bool{})
		body := expr
		for _, v := range vars {
			name := v[:strings.IndexByte(v, ' ')]
			g := fmt.Sprintf("g%d%s", c.ID, name)
			fmt.Fprintf(&sb, "var %s %s\n", g, v[strings.IndexByte(v, ' ')+1:])
			body = replaceIdent(body, name, g)
		}
		if c.NRes == 1 {
			fmt.Fprintf(&sb, "var v%d = %s\n", c.ID, body)
		} else {
			fmt.Fprintf(&sb, "func init() { %s%s }\n", lhs, body)
		}
		return sb.String()
	case 2:
		return fmt.Sprintf("var use%d = func(%s) {\n\t%s%s\n}\n", c.ID, strings.Join(ps, ", "), lhs, expr)
	}
	return fmt.Sprintf("func use%d(%s) {\n\t%s%s\n}\n", c.ID, strings.Join(ps, ", "), lhs, expr)
}

// replaceIdent replaces whole-identifier occurrences.
func replaceIdent(s, old, new string) string {
	var sb strings.Builder
	isId := func(b byte) bool {
		return b == '_' || b >= '0' && b <= '9' || b >= 'a' && b <= 'z' || b >= 'A' && b <= 'Z'
	}
	for i := 0; i < len(s); {
		if strings.HasPrefix(s[i:], old) && (i == 0 || !isId(s[i-1])) && (i+len(old) == len(s) || !isId(s[i+len(old)])) {
			sb.WriteString(new)
			i += len(old)
			continue
		}
		sb.WriteByte(s[i])
		i++
	}
	return sb.String()
}

// typeKey identifies (plugin, argument types up to assignability).
func (w *World) typeKey(c *Call) string {
	ks := []string{c.Plugin}
	for _, a := range c.Args {
		ks = append(ks, w.assignKey(a.Ty))
	}
	return strings.Join(ks, "|")
}

func (w *World) exactKey(c *Call) string {
	ks := []string{c.Plugin}
	for _, a := range c.Args {
		ks = append(ks, a.Ty.ID())
	}
	return strings.Join(ks, "|")
}
