package world

import (
	"fmt"
	"sort"
	"strings"

	"verif/tape"
)

// Clash kinds injected by MakeCollisions.
const (
	ClashConflict  = "conflict"  // one name, two argument type lists
	ClashDuplicate = "duplicate" // two names, one (plugin, argument type list)
)

var longSuffixes = []string{"", "Q", "Of", "ForThisType", "WithAVeryLongNameIndeed", "X", "_v2"}

// MakeCollisions rewrites names of existing calls / adds calls so that the
// package contains the requested kinds of clashes. It returns what it did.
// Nested calls are left alone.
func MakeCollisions(w *World, t *tape.Tape, wantConflict, wantDuplicate bool) []string {
	var did []string
	flat := func() []*Call {
		var out []*Call
		for _, c := range w.Calls {
			nested := false
			for _, a := range c.Args {
				if a.Nested != nil {
					nested = true
				}
			}
			if !nested && c.Curried == nil {
				out = append(out, c)
			}
		}
		return out
	}
	nid := 0
	for _, c := range w.Calls {
		if c.ID > nid {
			nid = c.ID
		}
	}
	if wantConflict {
		cs := flat()
		// two calls of one plugin with different, not mutually assignable types
		var pairs [][2]*Call
		for i := 0; i < len(cs); i++ {
			for j := i + 1; j < len(cs); j++ {
				a, b := cs[i], cs[j]
				if a.Plugin != b.Plugin || w.FuncName(a) == w.FuncName(b) || len(a.Args) != len(b.Args) {
					continue
				}
				same := true
				for k := range a.Args {
					if !w.assignable(a.Args[k].Ty, b.Args[k].Ty) {
						same = false
					}
				}
				if !same {
					pairs = append(pairs, [2]*Call{a, b})
				}
			}
		}
		if len(pairs) == 0 && len(cs) > 0 {
			// add a second call of the same plugin on another type
			a := cs[t.Intn(len(cs))]
			if b := sameShapeOtherType(w, a, t); b != nil {
				nid++
				b.ID = nid + 500
				b.File = t.Intn(w.NFiles)
				b.Suffix = a.Suffix
				w.Calls = append(w.Calls, b)
				did = append(did, fmt.Sprintf("%s: added %s on %s next to %s", ClashConflict, w.FuncName(b), argStr(b), argStr(a)))
			}
		} else if len(pairs) > 0 {
			p := pairs[t.Intn(len(pairs))]
			old := w.FuncName(p[1])
			// every call with p[1]'s name and types follows
			for _, c := range cs {
				if c != p[1] && c.Plugin == p[1].Plugin && c.Suffix == p[1].Suffix && w.exactKey(c) == w.exactKey(p[1]) {
					c.Suffix = p[0].Suffix
				}
			}
			p[1].Suffix = p[0].Suffix
			did = append(did, fmt.Sprintf("%s: %s(%s) renamed to %s used for (%s)", ClashConflict, old, argStr(p[1]), w.FuncName(p[0]), argStr(p[0])))
		}
	}
	if wantDuplicate {
		cs := flat()
		if len(cs) > 0 {
			a := cs[t.Intn(len(cs))]
			b := *a
			nid++
			b.ID = nid + 900
			b.File = t.Intn(w.NFiles)
			b.Test = false
			sfx := longSuffixes[t.Intn(len(longSuffixes))] + fmt.Sprintf("D%d", b.ID)
			if len(a.Suffix) > 0 && t.Chance(1, 3) {
				// a name exactly as long as the one it duplicates (the rewrite replaces like by like)
				for _, lead := range []string{"Q", "R", "W"} {
					cand := lead + a.Suffix[1:]
					taken := false
					for _, c := range cs {
						if c.Plugin == a.Plugin && c.Suffix == cand {
							taken = true
						}
					}
					if !taken {
						sfx = cand
						break
					}
				}
			}
			b.Suffix = sfx
			// position: before or after the original (decides which name survives -dedup)
			if t.Bool() {
				w.Calls = append([]*Call{&b}, w.Calls...)
			} else {
				w.Calls = append(w.Calls, &b)
			}
			did = append(did, fmt.Sprintf("%s: %s and %s both for (%s)", ClashDuplicate, w.FuncName(a), w.FuncName(&b), argStr(a)))
		}
	}
	return did
}

func argStr(c *Call) string {
	var ss []string
	for _, a := range c.Args {
		ss = append(ss, a.Ty.Str(""))
	}
	return strings.Join(ss, ", ")
}

// sameShapeOtherType builds a call of a's plugin and shape on different types.
func sameShapeOtherType(w *World, a *Call, t *tape.Tape) *Call {
	alts := []*Ty{Basic("int"), Basic("string"), Slice(Basic("int")), Ptr(Basic("string")), Map(Basic("string"), Basic("bool")), Basic("float64")}
	for _, d := range w.Decls {
		if d.Struct {
			alts = append(alts, Ptr(Named("", d.Name)))
		}
	}
	switch a.Plugin {
	case "equal", "compare", "hash", "clone":
		for try := 0; try < 8; try++ {
			T := alts[t.Intn(len(alts))]
			if w.assignable(T, a.Args[0].Ty) {
				continue
			}
			b := &Call{Plugin: a.Plugin, NRes: a.NRes, Form: 0, Pkg: a.Pkg}
			for i := range a.Args {
				b.Args = append(b.Args, Arg{Param: a.Args[i].Param, Ty: T})
			}
			return b
		}
	case "keys":
		m := Map(Basic("uint8"), Basic("uint8"))
		if !w.assignable(m, a.Args[0].Ty) {
			return &Call{Plugin: "keys", Args: []Arg{{Param: "m", Ty: m}}, NRes: 1, Pkg: a.Pkg}
		}
	case "sort", "unique", "set":
		l := Slice(Basic("uint16"))
		if !w.assignable(l, a.Args[0].Ty) {
			return &Call{Plugin: a.Plugin, Args: []Arg{{Param: "l", Ty: l}}, NRes: 1, Pkg: a.Pkg}
		}
	}
	return nil
}

// Clashes computes, independently of how the world was built, the conflicts
// and duplicates among the top-level (non-nested) calls of package p: this is
// the predicate of the statement of C11.
func (w *World) Clashes() (conflicts, duplicates []string) {
	nameToKeys := map[string]map[string]bool{}
	keyToNames := map[string]map[string]bool{}
	var visit func(c *Call)
	visit = func(c *Call) {
		for _, a := range c.Args {
			if a.Nested != nil {
				visit(a.Nested)
			}
		}
		n, k := w.FuncName(c), w.exactKey(c)
		if nameToKeys[n] == nil {
			nameToKeys[n] = map[string]bool{}
		}
		nameToKeys[n][k] = true
		if keyToNames[k] == nil {
			keyToNames[k] = map[string]bool{}
		}
		keyToNames[k][n] = true
	}
	for _, c := range w.Calls {
		visit(c)
	}
	for n, ks := range nameToKeys {
		if len(ks) > 1 {
			conflicts = append(conflicts, n)
		}
	}
	for k, ns := range keyToNames {
		if len(ns) > 1 {
			duplicates = append(duplicates, k)
		}
	}
	sort.Strings(conflicts)
	sort.Strings(duplicates)
	return
}
