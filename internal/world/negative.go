package world

import (
	"fmt"

	"verif/tape"
)

// NegSnippet is one unsupported / malformed use spliced into a world (C09).
type NegSnippet struct {
	Kind   string // field | unordered | nonfunc | arity | mismatch | variadic | chanfunc | iface | broken | unnamed | zerores | genname
	Plugin string
	Call   string // name of the derive call in the snippet ("" for broken files)
	Type   string // offending type as it appears in the source
	Text   string // file content (package p)
}

func neg(kind, plugin, call, typ, body string) NegSnippet {
	return NegSnippet{Kind: kind, Plugin: plugin, Call: call, Type: typ, Text: "package p\n\n" + body + "\n"}
}

// NegSnippets is the table of unsupported constituents "at every position"
// the statement of C09 lists.
var NegSnippets = []NegSnippet{
	// chan / func / interface / unsafe.Pointer as argument, element, key, pointer target, field
	neg("chanfunc", "equal", "deriveEqualNeg", "chan int", "func negUse(a, b chan int) bool { return deriveEqualNeg(a, b) }"),
	neg("chanfunc", "equal", "deriveEqualNeg", "func()", "func negUse(a, b func()) bool { return deriveEqualNeg(a, b) }"),
	neg("chanfunc", "compare", "deriveCompareNeg", "chan int", "func negUse(a, b chan int) int { return deriveCompareNeg(a, b) }"),
	neg("chanfunc", "compare", "deriveCompareNeg", "func(int) int", "func negUse(a, b func(int) int) int { return deriveCompareNeg(a, b) }"),
	neg("chanfunc", "hash", "deriveHashNeg", "chan string", "func negUse(a chan string) uint64 { return deriveHashNeg(a) }"),
	neg("chanfunc", "hash", "deriveHashNeg", "func()", "func negUse(a func()) uint64 { return deriveHashNeg(a) }"),
	neg("chanfunc", "clone", "deriveCloneNeg", "[]chan int", "func negUse(a []chan int) []chan int { return deriveCloneNeg(a) }"),
	neg("chanfunc", "deepcopy", "deriveDeepCopyNeg", "map[string]func()", "func negUse(a, b map[string]func()) { deriveDeepCopyNeg(a, b) }"),
	neg("chanfunc", "gostring", "deriveGoStringNeg", "chan int", "func negUse(a chan int) string { return deriveGoStringNeg(a) }"),
	neg("chanfunc", "gostring", "deriveGoStringNeg", "func()", "func negUse(a []func()) string { return deriveGoStringNeg(a) }"),
	neg("chanfunc", "equal", "deriveEqualNeg", "*chan int", "func negUse(a, b *chan int) bool { return deriveEqualNeg(a, b) }"),
	neg("chanfunc", "compare", "deriveCompareNeg", "[2]func()", "func negUse(a, b [2]func()) int { return deriveCompareNeg(a, b) }"),
	neg("chanfunc", "hash", "deriveHashNeg", "map[string]chan int", "func negUse(a map[string]chan int) uint64 { return deriveHashNeg(a) }"),
	neg("chanfunc", "sort", "deriveSortNeg", "[]chan int", "func negUse(a []chan int) []chan int { return deriveSortNeg(a) }"),
	neg("chanfunc", "unique", "deriveUniqueNeg", "[]func()", "func negUse(a []func()) []func() { return deriveUniqueNeg(a) }"),
	neg("chanfunc", "contains", "deriveContainsNeg", "[]chan int", "func negUse(a []chan int, c chan int) bool { return deriveContainsNeg(a, c) }"),
	neg("chanfunc", "union", "deriveUnionNeg", "[]func()", "func negUse(a, b []func()) []func() { return deriveUnionNeg(a, b) }"),
	neg("iface", "equal", "deriveEqualNeg", "interface{}", "func negUse(a, b interface{}) bool { return deriveEqualNeg(a, b) }"),
	neg("iface", "compare", "deriveCompareNeg", "error", "func negUse(a, b error) int { return deriveCompareNeg(a, b) }"),
	neg("iface", "hash", "deriveHashNeg", "interface{}", "func negUse(a []interface{}) uint64 { return deriveHashNeg(a) }"),
	neg("iface", "clone", "deriveCloneNeg", "interface{}", "func negUse(a map[string]interface{}) map[string]interface{} { return deriveCloneNeg(a) }"),
	neg("iface", "gostring", "deriveGoStringNeg", "error", "func negUse(a error) string { return deriveGoStringNeg(a) }"),
	neg("iface", "sort", "deriveSortNeg", "[]interface{}", "func negUse(a []interface{}) []interface{} { return deriveSortNeg(a) }"),
	neg("iface", "min", "deriveMinNeg", "interface{}", "func negUse(a, b interface{}) interface{} { return deriveMinNeg(a, b) }"),
	neg("unsafe", "equal", "deriveEqualNeg", "unsafe.Pointer", "import \"unsafe\"\n\nfunc negUse(a, b unsafe.Pointer) bool { return deriveEqualNeg(a, b) }"),
	neg("unsafe", "hash", "deriveHashNeg", "unsafe.Pointer", "import \"unsafe\"\n\nfunc negUse(a []unsafe.Pointer) uint64 { return deriveHashNeg(a) }"),
	neg("unsafe", "clone", "deriveCloneNeg", "unsafe.Pointer", "import \"unsafe\"\n\ntype negS struct{ P unsafe.Pointer }\n\nfunc negUse(a *negS) *negS { return deriveCloneNeg(a) }"),
	neg("unsafe", "compare", "deriveCompareNeg", "unsafe.Pointer", "import \"unsafe\"\n\nfunc negUse(a, b map[string]unsafe.Pointer) int { return deriveCompareNeg(a, b) }"),
	// unordered element types for Min / Max / Sort
	neg("unordered", "sort", "deriveSortNeg", "[]bool", "func negUse(a []bool) []bool { return deriveSortNeg(a) }"),
	neg("unordered", "sort", "deriveSortNeg", "[]complex128", "func negUse(a []complex128) []complex128 { return deriveSortNeg(a) }"),
	neg("unordered", "min", "deriveMinNeg", "bool", "func negUse(a, b bool) bool { return deriveMinNeg(a, b) }"),
	neg("unordered", "min", "deriveMinNeg", "[]complex64", "func negUse(a []complex64, d complex64) complex64 { return deriveMinNeg(a, d) }"),
	neg("unordered", "max", "deriveMaxNeg", "[]bool", "func negUse(a []bool, d bool) bool { return deriveMaxNeg(a, d) }"),
	neg("unordered", "max", "deriveMaxNeg", "complex128", "func negUse(a, b complex128) complex128 { return deriveMaxNeg(a, b) }"),
	neg("unordered", "max", "deriveMaxNeg", "chan int", "func negUse(a, b chan int) chan int { return deriveMaxNeg(a, b) }"),
	// non-function arguments
	neg("nonfunc", "fmap", "deriveFmapNeg", "int", "func negUse(l []int) []int { return deriveFmapNeg(42, l) }"),
	neg("nonfunc", "filter", "deriveFilterNeg", "string", "func negUse(l []int) []int { return deriveFilterNeg(\"x\", l) }"),
	neg("nonfunc", "curry", "deriveCurryNeg", "int", "var negV = deriveCurryNeg(5)"),
	neg("nonfunc", "mem", "deriveMemNeg", "int", "var negV = deriveMemNeg(5)"),
	neg("nonfunc", "compose", "deriveComposeNeg", "int", "var negV = deriveComposeNeg(1, 2)"),
	neg("nonfunc", "flip", "deriveFlipNeg", "[]int", "func negUse(l []int) { _ = deriveFlipNeg(l) }"),
	neg("nonfunc", "uncurry", "deriveUncurryNeg", "string", "var negV = deriveUncurryNeg(\"s\")"),
	neg("nonfunc", "apply", "deriveApplyNeg", "int", "var negV = deriveApplyNeg(1, 2)"),
	neg("nonfunc", "traverse", "deriveTraverseNeg", "int", "func negUse(l []int) { _, _ = deriveTraverseNeg(7, l) }"),
	neg("nonfunc", "toerror", "deriveToErrorNeg", "int", "func negUse(err error) { _ = deriveToErrorNeg(err, 3) }"),
	neg("nonfunc", "do", "deriveDoNeg", "int", "var negV = deriveDoNeg(1, 2)"),
	neg("nonfunc", "all", "deriveAllNeg", "bool", "func negUse(l []int) bool { return deriveAllNeg(true, l) }"),
	neg("nonfunc", "keys", "deriveKeysNeg", "int", "var negV = deriveKeysNeg(42)"),
	neg("nonfunc", "join", "deriveJoinNeg", "int", "var negV = deriveJoinNeg(42)"),
	neg("nonfunc", "tuple", "deriveTupleNeg", "", "var negV = deriveTupleNeg()"),
	neg("nonfunc", "pipeline", "derivePipelineNeg", "int", "var negV = derivePipelineNeg(1, 2)"),
	neg("nonfunc", "dup", "deriveDupNeg", "int", "var negV = deriveDupNeg(1)"),
	// wrong arity
	neg("arity", "equal", "deriveEqualNeg", "", "func negUse(a, b, c int) bool { return deriveEqualNeg(a, b, c) }"),
	neg("arity", "hash", "deriveHashNeg", "", "func negUse(a, b int) uint64 { return deriveHashNeg(a, b) }"),
	neg("arity", "keys", "deriveKeysNeg", "", "var negV = deriveKeysNeg()"),
	neg("arity", "clone", "deriveCloneNeg", "", "var negV = deriveCloneNeg()"),
	neg("arity", "contains", "deriveContainsNeg", "", "func negUse(l []int) bool { return deriveContainsNeg(l) }"),
	neg("arity", "sort", "deriveSortNeg", "", "func negUse(l []int) []int { return deriveSortNeg(l, l) }"),
	neg("arity", "compare", "deriveCompareNeg", "", "func negUse(a int) { _ = deriveCompareNeg() }"),
	neg("arity", "deepcopy", "deriveDeepCopyNeg", "", "func negUse(a *int) { deriveDeepCopyNeg(a) }"),
	neg("arity", "min", "deriveMinNeg", "", "func negUse(a int) int { return deriveMinNeg(a) }"),
	neg("arity", "set", "deriveSetNeg", "", "func negUse(l []int) { _ = deriveSetNeg(l, l) }"),
	neg("arity", "union", "deriveUnionNeg", "", "func negUse(l []int) { _ = deriveUnionNeg(l) }"),
	neg("arity", "fmap", "deriveFmapNeg", "", "func negUse(f func(int) int) { _ = deriveFmapNeg(f) }"),
	neg("arity", "mem", "deriveMemNeg", "", "func negUse(f func(int) int) { _ = deriveMemNeg(f, f) }"),
	neg("arity", "gostring", "deriveGoStringNeg", "", "func negUse(a, b int) string { return deriveGoStringNeg(a, b) }"),
	neg("arity", "do", "deriveDoNeg", "", "func negUse(f func() (int, error)) { _, _ = deriveDoNeg(f) }"),
	neg("arity", "curry", "deriveCurryNeg", "", "func negUse(f func(a int) int) { _ = deriveCurryNeg(f) }"),
	// mismatched argument types
	neg("mismatch", "equal", "deriveEqualNeg", "", "func negUse(a int, b string) bool { return deriveEqualNeg(a, b) }"),
	neg("mismatch", "compare", "deriveCompareNeg", "", "type negS struct{ A int }\n\nfunc negUse(a *negS, b negS) int { return deriveCompareNeg(a, b) }"),
	neg("mismatch", "deepcopy", "deriveDeepCopyNeg", "", "type negS struct{ A int }\n\nfunc negUse(a *negS, b negS) { deriveDeepCopyNeg(a, b) }"),
	neg("mismatch", "union", "deriveUnionNeg", "", "func negUse(a []int, b []string) { _ = deriveUnionNeg(a, b) }"),
	neg("mismatch", "contains", "deriveContainsNeg", "", "func negUse(a []int) bool { return deriveContainsNeg(a, \"x\") }"),
	neg("mismatch", "min", "deriveMinNeg", "", "func negUse(a []int) int { return deriveMinNeg(a, \"d\") }"),
	neg("mismatch", "intersect", "deriveIntersectNeg", "", "func negUse(a []int, b map[int]struct{}) { _ = deriveIntersectNeg(a, b) }"),
	neg("mismatch", "fmap", "deriveFmapNeg", "", "func negUse(f func(string) int, l []int) { _ = deriveFmapNeg(f, l) }"),
	neg("mismatch", "filter", "deriveFilterNeg", "", "func negUse(f func(int) int, l []int) { _ = deriveFilterNeg(f, l) }"),
	neg("mismatch", "compose", "deriveComposeNeg", "", "func negUse(f func(int) (string, error), g func(int) (int, error)) { _ = deriveComposeNeg(f, g) }"),
	neg("mismatch", "compose", "deriveComposeNeg", "", "func negUse(f func(int) string, g func(string) (int, error)) { _ = deriveComposeNeg(f, g) }"),
	// defined function types as arguments (accepted or refused, never a panic), and a file that dot-imports unsafe
	neg("namedfunc", "do", "deriveDoNeg", "negGetter", "type negGetter func() (int, error)\n\nfunc negUse(a, b negGetter) { _, _, _ = deriveDoNeg(a, b) }"),
	neg("namedfunc", "compose", "deriveComposeNeg", "negStage", "type negStage func(int) (int, error)\n\nfunc negUse(a, b negStage) { _ = deriveComposeNeg(a, b) }"),
	neg("namedfunc", "curry", "deriveCurryNeg", "negBin", "type negBin func(int, string) bool\n\nfunc negUse(a negBin) { _ = deriveCurryNeg(a) }"),
	neg("namedfunc", "mem", "deriveMemNeg", "negFn", "type negFn func([]int) int\n\nfunc negUse(a negFn) { _ = deriveMemNeg(a) }"),
	neg("namedfunc", "fmap", "deriveFmapNeg", "negMap", "type negMap func(int) string\n\nfunc negUse(a negMap, l []int) { _ = deriveFmapNeg(a, l) }"),
	neg("namedfunc", "toerror", "deriveToErrorNeg", "negPred", "type negPred func(int) (string, bool)\n\nfunc negUse(e error, a negPred) { _ = deriveToErrorNeg(e, a) }"),
	neg("namedfunc", "apply", "deriveApplyNeg", "negBin", "type negBin func(int, string) bool\n\nfunc negUse(a negBin) { _ = deriveApplyNeg(a, \"x\") }"),
	neg("namedfunc", "traverse", "deriveTraverseNeg", "negConv", "type negConv func(string) (int, error)\n\nfunc negUse(a negConv, l []string) { _, _ = deriveTraverseNeg(a, l) }"),
	neg("dotunsafe", "equal", "deriveEqualNeg", "", "import . \"unsafe\"\n\nvar negSize = Sizeof(int32(0))\n\nfunc negPtr(p *int) Pointer { return Pointer(p) }\n\nfunc negUse(a, b []int) bool { return deriveEqualNeg(a, b) }"),
	// the number of results of one stage and of parameters of the next differ, at every position and around error-only stages
	neg("mismatch", "compose", "deriveComposeNeg", "", "func negUse(f func(int) error, g func(string) (int, error)) { _ = deriveComposeNeg(f, g) }"),
	neg("mismatch", "compose", "deriveComposeNeg", "", "func negUse(f func(int) (string, error), g func() error, h func(int) (int, error)) { _ = deriveComposeNeg(f, g, h) }"),
	neg("mismatch", "compose", "deriveComposeNeg", "", "func negUse(f func(int) (string, int, error), g func(string) (int, error)) { _ = deriveComposeNeg(f, g) }"),
	neg("mismatch", "compose", "deriveComposeNeg", "", "func negUse(f func() (string, error), g func(string) (int, error), h func(int, int) (bool, error)) { _ = deriveComposeNeg(f, g, h) }"),
	neg("mismatch", "compose", "deriveComposeNeg", "", "func negUse(f func() (string, error), g func(string) error, h func(bool) error) { _ = deriveComposeNeg(f, g, h) }"),
	neg("mismatch", "compose", "deriveComposeNeg", "", "func negUse(f func() (string, error), g func(string) (int, error), h func(string) (bool, error)) { _ = deriveComposeNeg(f, g, h) }"),
	neg("mismatch", "traverse", "deriveTraverseNeg", "", "func negUse(f func(int) int, l []int) { _, _ = deriveTraverseNeg(f, l) }"),
	neg("mismatch", "toerror", "deriveToErrorNeg", "", "func negUse(err error, f func(int) int) { _ = deriveToErrorNeg(err, f) }"),
	neg("mismatch", "apply", "deriveApplyNeg", "", "func negUse(f func(a int, b string) int) { _ = deriveApplyNeg(f, 5) }"),
	neg("mismatch", "join", "deriveJoinNeg", "", "func negUse(l []int) { _ = deriveJoinNeg(l) }"),
	neg("mismatch", "keys", "deriveKeysNeg", "", "func negUse(l []int) { _ = deriveKeysNeg(l) }"),
	neg("mismatch", "set", "deriveSetNeg", "", "func negUse(m map[int]int) { _ = deriveSetNeg(m) }"),
	neg("mismatch", "do", "deriveDoNeg", "", "func negUse(f func() int, g func() (int, error)) { _, _, _ = deriveDoNeg(f, g) }"),
	neg("mismatch", "dup", "deriveDupNeg", "chan<- int", "func negUse(c chan<- int) { _, _ = deriveDupNeg(c) }"),
	neg("mismatch", "fmap", "deriveFmapNeg", "chan<- int", "func negUse(c chan<- int) { _ = deriveFmapNeg(func(i int) string { return \"\" }, c) }"),
	neg("mismatch", "join", "deriveJoinNeg", "chan<- int", "func negUse(a chan int, b chan<- int) { _ = deriveJoinNeg(a, b) }"),
	neg("mismatch", "join", "deriveJoinNeg", "[]chan<- int", "func negUse(a []chan<- int) { _ = deriveJoinNeg(a) }"),
	neg("mismatch", "join", "deriveJoinNeg", "chan chan<- int", "func negUse(a chan chan<- int) { _ = deriveJoinNeg(a) }"),
	neg("mismatch", "join", "deriveJoinNeg", "chan<- chan int", "func negUse(a chan<- chan int) { _ = deriveJoinNeg(a) }"),
	neg("mismatch", "pipeline", "derivePipelineNeg", "chan<- int", "func negUse(f func(int) chan<- int, g func(int) <-chan string) { _ = derivePipelineNeg(f, g) }"),
	// channel directions that are supported: the generated parameter must accept the argument as written
	neg("chandir", "join", "deriveJoinNeg", "chan chan int", "func negUse(a chan chan int) { _ = deriveJoinNeg(a) }"),
	neg("chandir", "join", "deriveJoinNeg", "<-chan chan int", "func negUse(a <-chan chan int) { _ = deriveJoinNeg(a) }"),
	neg("chandir", "join", "deriveJoinNeg", "chan (<-chan int)", "func negUse(a chan (<-chan int), b <-chan (<-chan string)) { _, _ = deriveJoinNeg(a), deriveJoinNeg2(b) }"),
	neg("chandir", "join", "deriveJoinNeg", "[]<-chan int", "func negUse(a []<-chan int, b []chan int, c chan int, d <-chan int) { _, _, _ = deriveJoinNeg(a), deriveJoinNeg2(b), deriveJoinNeg3(c, d) }"),
	neg("chandir", "fmap", "deriveFmapNeg", "<-chan int", "func negUse(a <-chan int, b chan int) { f := func(i int) string { return \"\" }; _, _ = deriveFmapNeg(f, a), deriveFmapNeg2(f, b) }"),
	neg("chandir", "dup", "deriveDupNeg", "<-chan int", "func negUse(a <-chan int, b chan string) { _, _ = deriveDupNeg(a); _, _ = deriveDupNeg2(b) }"),
	neg("chandir", "pipeline", "derivePipelineNeg", "chan int", "func negUse(f func(int) chan int, g func(int) <-chan string) { _ = derivePipelineNeg(f, g) }"),
	neg("chandir", "pipeline", "derivePipelineNeg", "chan string", "func negUse(f func(int) <-chan int, g func(int) chan string, h func(int) chan int) { _, _ = derivePipelineNeg(f, g), derivePipelineNeg2(h, g) }"),
	neg("mismatch", "pipeline", "derivePipelineNeg", "", "func negUse(f func(int) <-chan string, g func(int) <-chan int) { _ = derivePipelineNeg(f, g) }"),
	// variadic signatures
	neg("variadic", "curry", "deriveCurryNeg", "...string", "func negUse(f func(a int, b ...string) int) { _ = deriveCurryNeg(f) }"),
	neg("variadic", "flip", "deriveFlipNeg", "...string", "func negUse(f func(a int, b ...string) int) { _ = deriveFlipNeg(f) }"),
	neg("variadic", "uncurry", "deriveUncurryNeg", "...int", "func negUse(f func(a int) func(b ...int) int) { _ = deriveUncurryNeg(f) }"),
	neg("variadic", "mem", "deriveMemNeg", "...int", "func negUse(f func(xs ...int) int) { _ = deriveMemNeg(f) }"),
	neg("variadic", "apply", "deriveApplyNeg", "...int", "func negUse(f func(a string, xs ...int) int) { _ = deriveApplyNeg(f, []int{1}) }"),
	neg("variadic", "compose", "deriveComposeNeg", "...int", "func negUse(f func(xs ...int) (int, error), g func(int) (int, error)) { _ = deriveComposeNeg(f, g) }"),
	neg("variadic", "toerror", "deriveToErrorNeg", "...int", "func negUse(err error, f func(xs ...int) (int, bool)) { _ = deriveToErrorNeg(err, f) }"),
	neg("variadic", "fmap", "deriveFmapNeg", "...int", "func negUse(f func(xs ...int) int, l []int) { _ = deriveFmapNeg(f, l) }"),
	// parameter-name forms of function arguments: unnamed, blank, names the generator uses itself
	neg("unnamed", "curry", "deriveCurryNeg", "", "func negUse(f func(int, string) bool) { _ = deriveCurryNeg(f) }"),
	neg("unnamed", "flip", "deriveFlipNeg", "", "func negUse(f func(int, string) bool) { _ = deriveFlipNeg(f) }"),
	neg("unnamed", "uncurry", "deriveUncurryNeg", "", "func negUse(f func(int) func(string) bool) { _ = deriveUncurryNeg(f) }"),
	neg("unnamed", "apply", "deriveApplyNeg", "", "func negUse(f func(int, string) bool) { _ = deriveApplyNeg(f, \"s\") }"),
	neg("unnamed", "mem", "deriveMemNeg", "", "func negUse(f func(int, string) bool) { _ = deriveMemNeg(f) }"),
	neg("unnamed", "compose", "deriveComposeNeg", "", "func negUse(f func(int) (string, error), g func(string) (bool, error)) { _ = deriveComposeNeg(f, g) }"),
	neg("unnamed", "toerror", "deriveToErrorNeg", "", "func negUse(err error, f func(int) (string, bool)) { _ = deriveToErrorNeg(err, f) }"),
	neg("unnamed", "curry", "deriveCurryNeg", "", "func negUse(f func(_ int, _ string) bool) { _ = deriveCurryNeg(f) }"),
	neg("unnamed", "flip", "deriveFlipNeg", "", "func negUse(f func(_ int, _ string) bool) { _ = deriveFlipNeg(f) }"),
	neg("genname", "curry", "deriveCurryNeg", "", "func negUse(g func(f int, err string) bool) { _ = deriveCurryNeg(g) }"),
	neg("genname", "flip", "deriveFlipNeg", "", "func negUse(g func(f int, out string) bool) { _ = deriveFlipNeg(g) }"),
	neg("genname", "apply", "deriveApplyNeg", "", "func negUse(g func(f int, b string) bool) { _ = deriveApplyNeg(g, \"s\") }"),
	neg("genname", "uncurry", "deriveUncurryNeg", "", "func negUse(g func(f int) func(f string) bool) { _ = deriveUncurryNeg(g) }"),
	neg("genname", "mem", "deriveMemNeg", "", "func negUse(g func(f int, m string) bool) { _ = deriveMemNeg(g) }"),
	neg("genname", "compose", "deriveComposeNeg", "", "func negUse(g func(f0 int) (string, error), h func(f1 string) (bool, error)) { _ = deriveComposeNeg(g, h) }"),
	// functions without results
	neg("zerores", "curry", "deriveCurryNeg", "", "func negUse(f func(a int, b string)) { _ = deriveCurryNeg(f) }"),
	neg("zerores", "flip", "deriveFlipNeg", "", "func negUse(f func(a int, b string)) { _ = deriveFlipNeg(f) }"),
	neg("zerores", "uncurry", "deriveUncurryNeg", "", "func negUse(f func(a int) func(b string)) { _ = deriveUncurryNeg(f) }"),
	neg("zerores", "apply", "deriveApplyNeg", "", "func negUse(f func(a int, b string)) { _ = deriveApplyNeg(f, \"s\") }"),
	neg("zerores", "mem", "deriveMemNeg", "", "func negUse(f func(a int)) { _ = deriveMemNeg(f) }"),
	neg("zerores", "mem", "deriveMemNeg", "", "func negUse(f func(a []int)) { _ = deriveMemNeg(f) }"),
	neg("zerores", "mem", "deriveMemNeg", "", "func negUse(f func()) { _ = deriveMemNeg(f) }"),
	neg("zerores", "compose", "deriveComposeNeg", "", "func negUse(f func(a int) error, g func() (int, error)) { _ = deriveComposeNeg(f, g) }"),
	neg("zerores", "toerror", "deriveToErrorNeg", "", "func negUse(err error, f func() bool) { _ = deriveToErrorNeg(err, f) }"),
	// calls whose argument is a call with no or several results (go/types gives the argument a tuple type)
	neg("tuple", "join", "deriveJoinNeg", "()", "func negNone() {}\n\nvar negV = deriveJoinNeg(negNone())"),
	neg("tuple", "equal", "deriveEqualNeg", "()", "func negNone() {}\n\nvar negV = deriveEqualNeg(negNone(), negNone())"),
	neg("tuple", "hash", "deriveHashNeg", "(int, string)", "func negTwo() (int, string) { return 1, \"\" }\n\nvar negV = deriveHashNeg(negTwo())"),
	neg("tuple", "keys", "deriveKeysNeg", "()", "func negNone() {}\n\nvar negV = deriveKeysNeg(negNone())"),
	neg("tuple", "fmap", "deriveFmapNeg", "()", "func negNone() {}\n\nfunc negUse(l []int) { _ = deriveFmapNeg(negNone(), l) }"),
	neg("tuple", "compose", "deriveComposeNeg", "()", "func negNone() {}\n\nvar negV = deriveComposeNeg(negNone(), negNone())"),
	neg("tuple", "sort", "deriveSortNeg", "(int, int)", "func negTwo() (int, int) { return 1, 2 }\n\nvar negV = deriveSortNeg(negTwo())"),
	neg("tuple", "clone", "deriveCloneNeg", "()", "func negNone() {}\n\nvar negV = deriveCloneNeg(negNone())"),
	neg("tuple", "tuple", "deriveTupleNeg", "()", "func negNone() {}\n\nvar negV = deriveTupleNeg(negNone())"),
	neg("tuple", "mem", "deriveMemNeg", "()", "func negNone() {}\n\nvar negV = deriveMemNeg(negNone())"),
	neg("tuple", "join", "deriveJoinNeg", "(int, int, int)", "func negThree() (int, int, int) { return 1, 2, 3 }\n\nvar negV = deriveJoinNeg(negThree())"),
	// unnamed struct types as argument or as the type of a field, with zero, one and two fields
	neg("anonstruct", "equal", "deriveEqualNeg", "struct{ X []int }", "func negUse(a, b struct{ X []int }) bool { return deriveEqualNeg(a, b) }"),
	neg("anonstruct", "equal", "deriveEqualNeg", "struct{}", "func negUse(a, b struct{}) bool { return deriveEqualNeg(a, b) }"),
	neg("anonstruct", "equal", "deriveEqualNeg", "struct{ C []int }", "type negA struct{ B struct{ C []int } }\n\nfunc negUse(a, b *negA) bool { return deriveEqualNeg(a, b) }"),
	neg("anonstruct", "equal", "deriveEqualNeg", "struct{ C []int; D string }", "type negA struct{ B struct {\n\tC []int\n\tD string\n} }\n\nfunc negUse(a, b *negA) bool { return deriveEqualNeg(a, b) }"),
	neg("anonstruct", "hash", "deriveHashNeg", "struct{ C []int }", "type negA struct{ B struct{ C []int } }\n\nfunc negUse(a *negA) uint64 { return deriveHashNeg(a) }"),
	neg("anonstruct", "hash", "deriveHashNeg", "struct{ X []int }", "func negUse(a struct{ X []int }) uint64 { return deriveHashNeg(a) }"),
	neg("anonstruct", "compare", "deriveCompareNeg", "struct{ C []int }", "type negA struct{ B struct{ C []int } }\n\nfunc negUse(a, b *negA) int { return deriveCompareNeg(a, b) }"),
	neg("anonstruct", "clone", "deriveCloneNeg", "struct{ C []int }", "type negA struct{ B struct{ C []int } }\n\nfunc negUse(a *negA) *negA { return deriveCloneNeg(a) }"),
	neg("anonstruct", "gostring", "deriveGoStringNeg", "struct{ C []int }", "type negA struct{ B struct{ C []int } }\n\nfunc negUse(a *negA) string { return deriveGoStringNeg(a) }"),
	neg("anonstruct", "compare", "deriveCompareNeg", "struct{ X int }", "func negUse(a, b struct{ X int }) int { return deriveCompareNeg(a, b) }"),
	neg("anonstruct", "mem", "deriveMemNeg", "struct{ X []int }", "func negUse(f func(a struct{ X []int }) int) { _ = deriveMemNeg(f) }"),
	// named types that refer to themselves without a struct in between
	neg("selfref", "equal", "deriveEqualNeg", "L", "type negL []negL\n\nfunc negUse(a, b negL) bool { return deriveEqualNeg(a, b) }"),
	neg("selfref", "hash", "deriveHashNeg", "M", "type negM map[string]negM\n\nfunc negUse(a negM) uint64 { return deriveHashNeg(a) }"),
	neg("selfref", "clone", "deriveCloneNeg", "L", "type negL []negL\n\nfunc negUse(a negL) negL { return deriveCloneNeg(a) }"),
	neg("selfref", "compare", "deriveCompareNeg", "L", "type negL []negL\n\nfunc negUse(a, b negL) int { return deriveCompareNeg(a, b) }"),
	neg("selfref", "gostring", "deriveGoStringNeg", "M", "type negM map[string]negM\n\nfunc negUse(a negM) string { return deriveGoStringNeg(a) }"),
	neg("selfref", "equal", "deriveEqualNeg", "P", "type negP *negP\n\nfunc negUse(a, b negP) bool { return deriveEqualNeg(a, b) }"),
	neg("selfref", "deepcopy", "deriveDeepCopyNeg", "P", "type negP *negP\n\nfunc negUse(a, b negP) { deriveDeepCopyNeg(a, b) }"),
	// syntactically or type-wise broken user files
	{Kind: "broken", Text: "package p\n\nfunc negBroken( {\n"},
	{Kind: "broken", Text: "package p\n\nvar negX int = \"s\"\n"},
	{Kind: "broken", Text: "package p\n\nfunc negBroken() int { return negUndefined }\n"},
	{Kind: "broken", Text: "package other\n\nvar negX = 1\n"},
	{Kind: "broken", Text: "package p\n\nimport \"no/such/pkg\"\n\nvar negX = pkg.X\n"},
	{Kind: "broken", Text: "package p\n\ntype negT struct { A negMissing }\n\nfunc negUse(a, b *negT) bool { return deriveEqualNeg(a, b) }\n", Plugin: "equal", Call: "deriveEqualNeg"},
	{Kind: "broken", Text: "package p\n\nfunc negUse(a, b negMissing) bool { return deriveEqualNeg(a, b) }\n", Plugin: "equal", Call: "deriveEqualNeg"},
	{Kind: "broken", Text: "package p\n\nfunc negUse() {\n\tfor {\n"},
	{Kind: "broken", Text: "\x00\x01 not go at all"},
}

var unsupportedFieldTypes = []*Ty{
	Chan("both", Basic("int")), {K: "func"}, {K: "iface"}, {K: "unsafeptr"},
	Map(Basic("string"), Chan("recv", Basic("int"))), Slice(&Ty{K: "func"}), Ptr(&Ty{K: "iface"}), Array(2, Chan("both", Basic("bool"))),
	Ptr(Chan("both", Basic("int"))), Ptr(Ptr(&Ty{K: "func"})), Map(Basic("string"), Ptr(Chan("both", Basic("int")))), Slice(Ptr(&Ty{K: "func"})),
}

// SpliceNegative adds one unsupported constituent to the world and returns
// its description (kind, plugin, call name, offending type).
func SpliceNegative(w *World, t *tape.Tape, index int) NegSnippet {
	if index >= 0 && index < len(NegSnippets) {
		// the first len(NegSnippets) cases of a run enumerate the table once
		t.Force(5, 1)
		s := NegSnippets[t.Force(len(NegSnippets), index)]
		if w.RawFiles == nil {
			w.RawFiles = map[string]string{}
		}
		w.RawFiles["p/zz_neg.go"] = s.Text
		return s
	}
	if t.Intn(5) == 0 {
		// unsupported field inside a struct that a structural plugin is asked to handle
		var structs []*Decl
		for _, d := range w.Decls {
			if d.Struct {
				structs = append(structs, d)
			}
		}
		if len(structs) > 0 {
			d := structs[t.Intn(len(structs))]
			ft := unsupportedFieldTypes[t.Intn(len(unsupportedFieldTypes))]
			fname := fmt.Sprintf("Neg%d", len(d.Fields))
			pos := t.Intn(len(d.Fields) + 1)
			d.Fields = append(d.Fields[:pos:pos], append([]Field{{Name: fname, Ty: ft}}, d.Fields[pos:]...)...)
			plugin := []string{"equal", "compare", "hash", "clone", "deepcopy", "gostring"}[t.Intn(6)]
			T := Ptr(Named("", d.Name))
			name := PluginPrefix[plugin] + "NegF"
			body := ""
			switch plugin {
			case "equal", "compare":
				body = fmt.Sprintf("func negUse(a, b %s) { _ = %s(a, b) }", T.Str(""), name)
			case "deepcopy":
				body = fmt.Sprintf("func negUse(a, b %s) { %s(a, b) }", T.Str(""), name)
			default:
				body = fmt.Sprintf("func negUse(a %s) { _ = %s(a) }", T.Str(""), name)
			}
			s := neg("field", plugin, name, ft.Str(""), body)
			if w.RawFiles == nil {
				w.RawFiles = map[string]string{}
			}
			w.RawFiles["p/zz_neg.go"] = s.Text
			return s
		}
	}
	s := NegSnippets[t.Intn(len(NegSnippets))]
	if w.RawFiles == nil {
		w.RawFiles = map[string]string{}
	}
	w.RawFiles["p/zz_neg.go"] = s.Text
	return s
}

// undeclared types at every position of a derive call's argument type: the
// user file does not type-check, goderive must say so (or cope), never emit
// "invalid type" into derived.gen.go.
func init() {
	positions := []string{"negMissing", "[]negMissing", "map[negMissing]int", "map[string]negMissing", "*negMissing", "[2]negMissing",
		"map[negMissing]map[string]int", "map[string]map[negMissing]bool", "[]map[negMissing]string", "struct{ A negMissing }", "func(negMissing) int", "chan negMissing", "map[[2]negMissing]int", "*map[negMissing]int"}
	for _, pos := range positions {
		for _, pl := range []string{"equal", "compare", "hash", "clone", "deepcopy", "keys", "sort", "gostring"} {
			name := PluginPrefix[pl] + "Neg"
			var body string
			switch pl {
			case "equal", "compare":
				body = "func negUse(a, b " + pos + ") { _ = " + name + "(a, b) }"
			case "deepcopy":
				body = "func negUse(a, b *" + pos + ") { " + name + "(a, b) }"
			case "keys":
				if len(pos) < 4 || pos[:4] != "map[" {
					continue
				}
				body = "func negUse(a " + pos + ") { _ = " + name + "(a) }"
			case "sort":
				body = "func negUse(a []" + pos + ") { _ = " + name + "(a) }"
			default:
				body = "func negUse(a " + pos + ") { _ = " + name + "(a) }"
			}
			NegSnippets = append(NegSnippets, NegSnippet{Kind: "broken", Plugin: pl, Call: name, Type: pos, Text: "package p\n\n" + body + "\n"})
		}
	}
}

// chan / func / interface behind every type constructor, as the argument type
// of every structural plugin: the unsupported constituent must be found (and
// reported) however deep it sits.
func init() {
	leaves := [][2]string{{"chanfunc", "chan int"}, {"chanfunc", "func()"}, {"iface", "interface{ M() }"}}
	wraps := []string{"*%s", "**%s", "[]%s", "[2]%s", "map[string]%s", "map[string]*%s", "*[]%s", "struct{ A %s }", "*struct{ A *%s }", "[]*%s", "map[int][]%s"}
	plugins := []string{"equal", "compare", "hash", "clone", "deepcopy", "gostring"}
	for _, pl := range plugins {
		for _, lf := range leaves {
			for _, wr := range wraps {
				T := fmt.Sprintf(wr, lf[1])
				name := PluginPrefix[pl] + "NegW"
				body := ""
				switch pl {
				case "equal", "compare":
					body = fmt.Sprintf("func negUse(a, b %s) { _ = %s(a, b) }", T, name)
				case "deepcopy":
					if wr[0] != '*' && wr[0] != '[' && wr[0] != 'm' || wr[:2] == "[2" {
						continue // deepcopy takes pointers, slices and maps
					}
					body = fmt.Sprintf("func negUse(a, b %s) { %s(a, b) }", T, name)
				default:
					body = fmt.Sprintf("func negUse(a %s) { _ = %s(a) }", T, name)
				}
				NegSnippets = append(NegSnippets, neg(lf[0], pl, name, lf[1], body))
			}
		}
	}
}
