package world

import (
	"fmt"
	"strings"

	"verif/tape"
)

// Edit applies one tape-drawn edit to the world in place and returns a short
// description of it (C07 histories). Edits keep the user sources valid Go as
// far as this generator can tell; the C07 oracle compares with a from-scratch
// run on the same sources, so an edit that breaks the sources is not a
// source of false alarms, only of less interesting cases.
func Edit(w *World, t *tape.Tape, prof Profile) string {
	g := &gen{t: t, w: w, p: prof, reg: map[string]string{}, used: map[string]string{}}
	g.rebuild()
	if t.Chance(1, 10) {
		// the user takes a generated function over by hand: a declaration of that name and signature appears
		// in one of the user's files (from then on the call is an ordinary call, nothing is generated for it)
		var cands []*Call
		for _, c := range w.Calls {
			if c.Test || c.Curried != nil || c.Pair != nil || c.Pkg != "" {
				continue
			}
			taken := false
			for _, u := range w.UserFuncs {
				if u.Name == w.FuncName(c) {
					taken = true
				}
			}
			flat := true
			for _, a := range c.Args {
				if a.Nested != nil || a.Lit != "" {
					flat = false
				}
			}
			switch c.Plugin {
			case "equal", "compare", "hash":
				if flat && !taken {
					cands = append(cands, c)
				}
			}
		}
		if len(cands) > 0 {
			c := cands[t.Intn(len(cands))]
			name := w.FuncName(c)
			var ps []string
			for i, a := range c.Args {
				ps = append(ps, fmt.Sprintf("h%d %s", i, a.Ty.Str("")))
			}
			res, body := "bool", "return false"
			switch c.Plugin {
			case "compare":
				res, body = "int", "return 0"
			case "hash":
				res, body = "uint64", "return 7"
			}
			w.UserFuncs = append(w.UserFuncs, UserFunc{Name: name, File: c.File, Text: fmt.Sprintf("// %s is written by hand now.\nfunc %s(%s) %s { %s }\n", name, name, strings.Join(ps, ", "), res, body)})
			return "handwrite-call " + name
		}
	}
	if w.HasExt && t.Chance(1, 12) {
		// an edit outside p: a type of a package that p reaches only through a field of an imported type
		w.OextAlt = !w.OextAlt
		return fmt.Sprintf("edit-transitive-import other/ext.T pointer-field=%v", w.OextAlt)
	}
	if w.HasExt && t.Chance(1, 4) {
		// a field of one of the two same-named types of the two same-named imported packages, put first:
		// which package is mentioned first (and gets the plain import name) changes
		if d := g.pickCalledStruct(); d != nil && !g.usedAsKey(d.Name) {
			// ext.T and other/ext.W both need helper functions (slice / pointer and map inside): the generated
			// file has to import the package and name it in a signature
			ty := []*Ty{Named("ext", "T"), Named("oext", "W"), Ptr(Named("ext", "T")), Slice(Named("oext", "W"))}[t.Intn(4)]
			name := fmt.Sprintf("H%d", g.id())
			d.Fields = append([]Field{{Name: name, Ty: ty}}, d.Fields...)
			return fmt.Sprintf("add-first-field %s.%s %s", d.Name, name, ty.Str(""))
		}
	}
	if prof.Nested {
		// one more level: a slice parameter of a (possibly already nested) sort / unique / filter /
		// takewhile call becomes the keys of a map, so the chain needs one more generation pass than
		// the version the old file was generated for. Parameters at the bottom of an existing chain
		// are preferred: the old file then defines every function of the chain but the new innermost.
		var sites, deep []*Arg
		var visit func(c *Call, depth int)
		visit = func(c *Call, depth int) {
			if c == nil {
				return
			}
			switch c.Plugin {
			case "sort", "unique", "filter", "takewhile":
				for i := range c.Args {
					a := &c.Args[i]
					if a.Nested != nil {
						visit(a.Nested, depth+1)
					} else if a.Ty != nil && a.Ty.K == "slice" && a.Ty.Elem != nil && a.Ty.Elem.K == "basic" {
						switch a.Ty.Elem.Name {
						case "string", "int", "int64":
							sites = append(sites, a)
							if depth > 0 {
								deep = append(deep, a)
							}
						}
					}
				}
			}
		}
		for _, c := range w.Calls {
			if !c.Test && c.Curried == nil && c.Pair == nil {
				visit(c, 0)
			}
		}
		var pick []*Arg
		if len(deep) > 0 && t.Chance(1, 3) {
			pick = deep
		} else if len(sites) > 0 && t.Chance(1, 8) {
			pick = sites
		}
		if len(pick) > 0 {
			a := pick[t.Intn(len(pick))]
			k := a.Ty.Elem
			inner := &Call{Plugin: "keys", Args: []Arg{{Param: fmt.Sprintf("m%d", g.id()), Ty: Map(k, Basic("bool"))}}, NRes: 1, ResTy: Slice(k)}
			if f := g.finish(inner, ""); f != nil {
				old := a.Param
				*a = Arg{Nested: f, Ty: Slice(k)}
				return fmt.Sprintf("deepen-chain %s -> %s(...)", old, w.FuncName(f))
			}
		}
	}
	for try := 0; try < 4; try++ {
		k := t.Intn(11)
		if k == 9 {
			k = 1 // remove a call: twice as likely
		} else if k == 10 {
			k = 0
		}
		switch k {
		case 0: // add a call
			if t.Chance(1, 2) {
				// ... onto the source line of an existing call
				var hosts []*Call
				for _, h := range w.Calls {
					if pairable(h) {
						hosts = append(hosts, h)
					}
				}
				var c *Call
				var h *Call
				if len(hosts) > 0 {
					h = hosts[t.Intn(len(hosts))]
					// preferably a call of the host's own plugin on another type: the two functions are
					// neighbours in the generated file, so their relative order is observable
					if t.Intn(3) > 0 {
						if sc := g.simple(h.Plugin, g.anyTy()); sc != nil && sc.NRes == 1 {
							c = g.finish(sc, "")
						}
					}
				}
				if c == nil {
					c = g.genCall("")
				}
				if c != nil && h != nil && pairable(c) {
					h.Form = 0
					h.Pair = c
					return "add-call-same-line " + w.FuncName(c) + " next to " + w.FuncName(h)
				} else if c != nil {
					w.Calls = append(w.Calls, c)
					return "add-call " + w.FuncName(c)
				}
				continue
			}
			if c := g.genCall(""); c != nil {
				w.Calls = append(w.Calls, c)
				return "add-call " + w.FuncName(c)
			}
		case 1: // remove a call
			if len(w.Calls) > 0 {
				i := t.Intn(len(w.Calls))
				switch t.Intn(3) {
				case 1:
					i = len(w.Calls) - 1 // last in the sources
				case 2:
					// the call whose functions come last in derived.gen.go: plugins are
					// generated longest prefix first, equal lengths in descending order
					for j, c := range w.Calls {
						pj, pi := w.prefixOf(c.Plugin), w.prefixOf(w.Calls[i].Plugin)
						if len(pj) < len(pi) || (len(pj) == len(pi) && pj <= pi) {
							i = j
						}
					}
				}
				name := w.FuncName(w.Calls[i])
				w.Calls = append(w.Calls[:i:i], w.Calls[i+1:]...)
				return "remove-call " + name
			}
		case 2: // retype a field
			if d, fi := g.pickField(); d != nil {
				old := d.Fields[fi].Ty.Str("")
				d.Fields[fi].Ty = g.editTy(d)
				return fmt.Sprintf("retype-field %s.%s %s -> %s", d.Name, d.Fields[fi].Name, old, d.Fields[fi].Ty.Str(""))
			}
		case 3: // add a field
			if d := g.pickStruct(); d != nil {
				name := fmt.Sprintf("G%d", g.id())
				if t.Chance(1, 5) {
					name = fmt.Sprintf("g%d", g.id())
				}
				d.Fields = append(d.Fields, Field{Name: name, Ty: g.editTy(d)})
				return "add-field " + d.Name + "." + name
			}
		case 4: // remove a field
			if d, fi := g.pickField(); d != nil {
				name := d.Fields[fi].Name
				d.Fields = append(d.Fields[:fi:fi], d.Fields[fi+1:]...)
				return "remove-field " + d.Name + "." + name
			}
		case 5: // change the map type that flows from an inner derive call into an outer one
			for _, c := range w.Calls {
				for i := range c.Args {
					n := c.Args[i].Nested
					if n == nil || n.Plugin != "keys" || len(n.Args) != 1 || n.Args[0].Ty == nil || n.Args[0].Ty.K != "map" {
						continue
					}
					old := n.Args[0].Ty.Str("")
					nk := g.keyTy()
					if nk.Str("") == n.Args[0].Ty.Key.Str("") {
						nk = Basic([]string{"int", "string", "uint8", "int64"}[t.Intn(4)])
					}
					if nk.Str("") == n.Args[0].Ty.Key.Str("") {
						continue
					}
					if c.Plugin == "set" && !w.ValueKey(nk) {
						continue
					}
					if (c.Plugin == "sort") && w.under(nk).K == "basic" && !w.OrderedBasic(nk) {
						continue
					}
					n.Args[0].Ty = Map(nk, n.Args[0].Ty.Elem)
					n.ResTy = Slice(nk)
					c.Args[i].Ty = Slice(nk)
					renamed := ""
					if t.Bool() {
						// ... under a new name: the old file defines the outer function, not this inner one
						n.Suffix = fmt.Sprintf("R%d", g.id())
						renamed = " (inner call renamed)"
					}
					// other arguments of the outer call that carried the key type follow
					for j := range c.Args {
						if j != i && c.Args[j].Nested == nil && c.Args[j].Param == "k" {
							c.Args[j].Ty = nk
						}
						if j != i && c.Args[j].Nested == nil && c.Args[j].Ty != nil && c.Args[j].Ty.K == "func" && len(c.Args[j].Ty.Params) == 1 {
							c.Args[j].Ty.Params[0] = nk
						}
					}
					return fmt.Sprintf("retype-nested-flow %s(%s(...)) %s -> %s%s", w.FuncName(c), w.FuncName(n), old, n.Args[0].Ty.Str(""), renamed)
				}
			}
		case 6: // delete every derive call
			if len(w.Calls) > 0 && t.Chance(1, 3) {
				w.Calls = nil
				w.QCalls = nil
				return "remove-all-calls"
			}
		case 7: // add a type
			i := len(w.Decls) + g.id()
			g.genDecl(i)
			return "add-type " + w.Decls[len(w.Decls)-1].Name
		case 8: // rename a call (same types, new name)
			if len(w.Calls) > 0 {
				c := w.Calls[t.Intn(len(w.Calls))]
				old := w.FuncName(c)
				sfx := fmt.Sprintf("R%d", g.id())
				for _, o := range w.Calls {
					if o != c && o.Plugin == c.Plugin && o.Suffix == c.Suffix && w.exactKey(o) == w.exactKey(c) {
						o.Suffix = sfx
					}
				}
				c.Suffix = sfx
				return "rename-call " + old + " -> " + w.FuncName(c)
			}
		}
	}
	return "no-op"
}

// rebuild reconstructs the generator's registries from an existing world.
func (g *gen) rebuild() {
	w := g.w
	maxID := 0
	var visit func(c *Call)
	visit = func(c *Call) {
		if c.ID > maxID {
			maxID = c.ID
		}
		if c.Pair != nil {
			visit(c.Pair)
		}
		var tys []*Ty
		for _, a := range c.Args {
			tys = append(tys, a.Ty)
			if a.Nested != nil {
				visit(a.Nested)
			}
		}
		g.used[c.Pkg+"/"+c.Plugin+c.Suffix] = w.exactKey(c)
		g.prev = append(g.prev, prevCall{c.Pkg, c.Plugin, w.exactKey(c), c.Suffix, tys})
	}
	for _, c := range w.Calls {
		visit(c)
	}
	for _, c := range w.QCalls {
		visit(c)
	}
	g.nid = maxID + 1000*(1+len(w.Decls))
}

func (g *gen) pickStruct() *Decl {
	var ds []*Decl
	for _, d := range g.w.Decls {
		if d.Struct {
			ds = append(ds, d)
		}
	}
	if len(ds) == 0 {
		return nil
	}
	return ds[g.t.Intn(len(ds))]
}

func (g *gen) pickField() (*Decl, int) {
	var ds []*Decl
	for _, d := range g.w.Decls {
		if d.Struct && len(d.Fields) > 0 {
			ds = append(ds, d)
		}
	}
	if len(ds) == 0 {
		return nil, 0
	}
	d := ds[g.t.Intn(len(ds))]
	fi := g.t.Intn(len(d.Fields))
	if d.Fields[fi].Embedded {
		return nil, 0
	}
	return d, fi
}

// editTy: a field type for an edit. Structs that are used as map keys or set
// elements somewhere only get comparable, pointer-free field types.
func (g *gen) editTy(d *Decl) *Ty {
	if g.usedAsKey(d.Name) {
		return Basic([]string{"int", "string", "bool", "uint8", "int64"}[g.t.Intn(5)])
	}
	return g.ty(g.p.MaxDepth, d)
}

func (g *gen) usedAsKey(name string) bool {
	found := false
	var walk func(t *Ty, keyPos bool)
	walk = func(t *Ty, keyPos bool) {
		if t == nil || found {
			return
		}
		if t.K == "named" && t.Pkg == "" && t.Name == name && keyPos {
			found = true
			return
		}
		if t.K == "named" && t.Pkg == "" && keyPos {
			// a struct used as key that contains `name` by value
			if d := g.w.decl(t.Name); d != nil && d.Struct {
				for _, f := range d.Fields {
					walk(f.Ty, true)
				}
			}
		}
		walk(t.Key, true)
		walk(t.Elem, keyPos && t.K == "array")
		for _, p := range t.Params {
			walk(p, false)
		}
		for _, r := range t.Results {
			walk(r, false)
		}
	}
	for _, d := range g.w.Decls {
		if d.Under != nil {
			walk(d.Under, false)
		}
		for _, f := range d.Fields {
			walk(f.Ty, false)
		}
	}
	var visit func(c *Call)
	visit = func(c *Call) {
		setLike := c.Plugin == "set" || c.Plugin == "union" || c.Plugin == "intersect" || c.Plugin == "unique" || c.Plugin == "contains"
		for _, a := range c.Args {
			if a.Nested != nil {
				visit(a.Nested)
			}
			if a.Ty != nil {
				walk(a.Ty, false)
				if setLike && a.Ty.K == "slice" {
					walk(a.Ty.Elem, true)
				}
			}
		}
	}
	for _, c := range g.w.Calls {
		visit(c)
	}
	for _, c := range g.w.QCalls {
		visit(c)
	}
	return found
}

// pickCalledStruct: a struct of package p that is the (pointer to the)
// argument type of a structural derive call, so that a change to its fields
// shows in the generated file; any struct when there is none.
func (g *gen) pickCalledStruct() *Decl {
	var cands []*Decl
	for _, c := range g.w.Calls {
		switch c.Plugin {
		case "equal", "compare", "hash", "clone", "deepcopy":
		default:
			continue
		}
		for _, a := range c.Args {
			ty := a.Ty
			if ty != nil && ty.K == "ptr" {
				ty = ty.Elem
			}
			if ty != nil && ty.K == "named" && ty.Pkg == "" {
				if d := g.w.decl(ty.Name); d != nil && d.Struct {
					cands = append(cands, d)
				}
			}
		}
	}
	if len(cands) == 0 {
		return g.pickStruct()
	}
	return cands[g.t.Intn(len(cands))]
}
