package world

import (
	"fmt"

	"verif/tape"
)

// Profile tunes the workload (swarm: drawn per run by the checks).
type Profile struct {
	MaxDecls       int
	MaxCalls       int
	MaxDepth       int
	Plugins        []string // nil = all
	NamedComposite bool     // type A []int etc. (mutually assignable with unnamed) - C08 bias
	Ext            bool     // imported structs, also same-named packages
	Q              bool     // second package q
	Nested         bool     // nested derive calls (need a second pass)
	TestFile       bool     // calls in _test.go
	Forms          bool     // package-level var / closure call sites
	Curried        bool
	Unformatted    bool
	LineDirective  bool
	UserFuncs      bool // hand-written functions with derive-like names
	Concurrency    bool // do / pipeline / dup / channel forms
	ZeroResults    bool // functions without results for curry / flip / uncurry / mem (C09 profile)
	Clusters       bool // shaped groups of calls (curried pairs, arity families, pending names, external test package)
	Force          bool // Ext / Q are not only allowed but present
	FuncParamForms bool // unnamed / blank / generator-like parameter names in function-typed arguments
	Twin           bool // a second generated-for package with p's package name and type names
}

// FullProfile enables everything the properties name.
func FullProfile(depth int) Profile {
	return Profile{MaxDecls: 6, MaxCalls: 8, MaxDepth: depth, NamedComposite: true, Ext: true, Q: true, Nested: true, TestFile: true, Forms: true, Curried: true, Unformatted: true, UserFuncs: true, Concurrency: true, FuncParamForms: true, Clusters: true}
}

type prevCall struct {
	pkg, plugin, exact, sfx string
	args                    []*Ty
}

type gen struct {
	t    *tape.Tape
	w    *World
	p    Profile
	reg  map[string]string // typeKey -> suffix already used for it
	used map[string]string // plugin+suffix -> exactKey
	prev []prevCall
	nid  int
}

var basics = []string{"int", "string", "bool", "float64", "uint8", "int64", "uint32", "float32", "int8", "uint64", "complex128", "byte", "rune", "uint", "int16", "uint16", "int32"}

// Generate draws a world.
func Generate(t *tape.Tape, p Profile) *World {
	w := &World{NFiles: 1}
	g := &gen{t: t, w: w, p: p, reg: map[string]string{}, used: map[string]string{}}
	if p.MaxDecls < 1 {
		p.MaxDecls = 1
		g.p = p
	}
	w.HasExt = p.Ext && (t.Chance(1, 3) || p.Force)
	w.NFiles = 1 + t.Intn(3)
	nd := 1 + t.Intn(p.MaxDecls)
	for i := 0; i < nd; i++ {
		g.genDecl(i)
	}
	nc := 1 + t.Intn(p.MaxCalls)
	for i := 0; i < nc; i++ {
		if c := g.genCall(""); c != nil {
			w.Calls = append(w.Calls, c)
		}
	}
	if p.NamedComposite && t.Chance(1, 3) {
		g.assignableCluster()
	}
	if w.HasExt && t.Chance(1, 3) {
		// same plugin on same-named types of same-named packages (ext.T / other/ext.T) and on a
		// type of a package named like the package under generation
		plugin := []string{"equal", "compare", "hash", "clone", "deepcopy", "gostring"}[t.Intn(6)]
		for _, T := range []*Ty{Ptr(Named("ext", "T")), Ptr(Named("oext", "T")), Ptr(Named("op", "User"))} {
			if c := g.simple(plugin, T); c != nil && t.Intn(4) > 0 {
				if f := g.finish(c, ""); f != nil {
					w.Calls = append(w.Calls, f)
				}
			}
		}
	}
	if w.HasExt && p.Clusters && t.Chance(1, 4) {
		g.sameNamedFields()
	}
	if w.HasExt && p.Clusters && t.Chance(1, 4) {
		// one call whose top-level argument types come from the two same-named imported packages (and a
		// third one): the packages meet the qualifier within a single call
		args := []Arg{{Param: "a0", Ty: Named("ext", "T")}, {Param: "a1", Ty: Named("oext", "T")}, {Param: "a2", Ty: Named("op", "G")}, {Param: "a3", Ty: Named("ext", "U")}}
		r := t.Intn(len(args))
		args = append(args[r:], args[:r]...)
		args = args[:3+t.Intn(2)]
		for i := range args {
			args[i].Param = fmt.Sprintf("a%d", i)
		}
		c := &Call{Plugin: "tuple", Args: args, NRes: 1}
		if f := g.finish(c, ""); f != nil {
			// first in the sources: this call is where goderive meets these packages
			f.File, f.Test, f.Form = 0, false, 0
			w.Calls = append([]*Call{f}, w.Calls...)
		}
	}
	if p.Twin {
		g.twin()
	}
	if p.Clusters && t.Chance(1, 6) {
		g.nestedGroupCalls()
	}
	if p.Clusters && t.Chance(1, 6) {
		g.namedBasicElems()
	}
	if p.Clusters && t.Chance(1, 8) {
		// two instantiations of one generic named type next to each other
		if w.RawFiles == nil {
			w.RawFiles = map[string]string{}
		}
		w.RawFiles["p/zz_generic.go"] = "package p\n\ntype GList[T any] []T\n\ntype GHolder struct {\n\tNames  GList[[]string]\n\tCounts GList[[]int]\n\tFlags  GList[[]string]\n}\n\nfunc useGen1(a, b *GHolder) bool { return deriveEqualGen(a, b) }\n\nfunc useGen2(a *GHolder) string { return deriveGoStringGen(a) }\n\nfunc useGen3(a, b *GHolder) int { return deriveCompareGen(a, b) }\n"
	}
	if p.Clusters && t.Chance(1, 5) {
		g.curriedPair()
	}
	if p.Clusters && t.Chance(1, 5) {
		g.arityFamily()
	}
	if p.Clusters && p.Q && p.Nested && t.Chance(1, 4) {
		g.pendingNameCluster()
	}
	if p.Clusters && p.TestFile && t.Chance(1, 5) {
		// an external test package in the same directory, without derive calls
		if w.RawFiles == nil {
			w.RawFiles = map[string]string{}
		}
		w.RawFiles["p/x_test.go"] = "package p_test\n\nimport \"testing\"\n\nfunc TestNothing(t *testing.T) {}\n"
	}
	if p.Nested && t.Chance(1, 4) {
		if c := g.deepNest(); c != nil {
			w.Calls = append(w.Calls, c)
		}
	}
	if p.Forms && t.Chance(1, 3) {
		w.PName = []string{"pdemo", "main_p", "pkgwithalongname"}[t.Intn(3)]
	}
	if p.Forms {
		g.pairCalls()
	}
	if len(w.Calls) == 0 {
		// always at least one call: the simplest one
		c := g.simple("equal", Ptr(Named("", w.Decls[0].Name)))
		if c != nil {
			w.Calls = append(w.Calls, c)
		}
	}
	if p.Q && (t.Chance(1, 4) || p.Force) {
		w.HasQ = true
		nq := 1 + t.Intn(3)
		for i := 0; i < nq; i++ {
			if c := g.genCall("q"); c != nil {
				w.QCalls = append(w.QCalls, c)
			}
		}
		if len(w.QCalls) == 0 {
			w.HasQ = false
		}
	}
	if w.HasQ && w.HasExt && t.Bool() {
		// both packages derive over the same struct of a third package
		T := Ptr(Named("ext", []string{"X", "X", "T", "V"}[t.Intn(4)]))
		plugin := []string{"equal", "compare", "hash", "clone", "deepcopy"}[t.Intn(5)]
		for _, pkg := range []string{"", "q"} {
			if c := g.simple(plugin, T); c != nil {
				if f := g.finish(c, pkg); f != nil {
					if pkg == "" {
						w.Calls = append(w.Calls, f)
					} else {
						w.QCalls = append(w.QCalls, f)
					}
				}
			}
		}
	}
	if p.UserFuncs && t.Chance(1, 5) {
		g.genUserFunc()
	}
	w.Unfmt = make([]bool, w.NFiles)
	w.LineDir = make([]string, w.NFiles)
	for i := 0; i < w.NFiles; i++ {
		if p.Unformatted && t.Chance(1, 4) {
			w.Unfmt[i] = true
		}
		if p.LineDirective && t.Chance(1, 5) {
			// the output of another generator that contains derive calls
			w.LineDir[i] = "// Code generated by mockgen. DO NOT EDIT.\n"
		} else if p.LineDirective && t.Chance(1, 2) {
			k := t.Intn(3)
			w.LineDir[i] = []string{"//line gram.y:1", "//line ../gen/lexer.rl:1", "//line p.go.tmpl:10"}[k]
			// the file the directive names exists, as it does for goyacc / ragel / template output
			if w.RawFiles == nil {
				w.RawFiles = map[string]string{}
			}
			w.RawFiles[[]string{"p/gram.y", "gen/lexer.rl", "p/p.go.tmpl"}[k]] = "%% grammar source, not Go\nexpr : expr '+' expr ;\n"
		}
	}
	return w
}

func (g *gen) id() int { g.nid++; return g.nid }

// ---- types ------------------------------------------------------------------

func (g *gen) genDecl(i int) {
	w, t := g.w, g.t
	name := fmt.Sprintf("S%d", i)
	file := t.Intn(w.NFiles)
	kind := 0
	if i > 0 || g.p.NamedComposite {
		kind = t.Intn(6) // 0..3 struct, 4 named basic, 5 named composite
	}
	switch {
	case kind == 4:
		w.Decls = append(w.Decls, &Decl{Name: fmt.Sprintf("N%d", i), Under: Basic([]string{"int", "string", "float64", "uint8"}[t.Intn(4)]), File: file})
		return
	case kind == 5 && g.p.NamedComposite:
		var u *Ty
		switch t.Intn(3) {
		case 0:
			u = Slice(g.leaf())
		case 1:
			u = Map(g.keyTy(), g.leaf())
		default:
			u = Slice(Basic("int")) // deliberately frequent: several names for []int
		}
		w.Decls = append(w.Decls, &Decl{Name: fmt.Sprintf("A%d", i), Under: u, File: file})
		return
	}
	d := &Decl{Name: name, Struct: true, File: file, building: true}
	defer func() { d.building = false }()
	w.Decls = append(w.Decls, d) // registered first: fields may refer to it recursively
	nf := t.Intn(5)
	for f := 0; f < nf; f++ {
		fname := fmt.Sprintf("F%d", f)
		if t.Chance(1, 5) {
			fname = fmt.Sprintf("f%d", f)
		}
		if t.Chance(1, 10) && i > 0 {
			// embedded earlier struct
			for j := len(w.Decls) - 1; j >= 0; j-- {
				if w.Decls[j].Struct && w.Decls[j] != d && !embeds(d, w.Decls[j].Name) {
					d.Fields = append(d.Fields, Field{Name: w.Decls[j].Name, Ty: Named("", w.Decls[j].Name), Embedded: true})
					break
				}
			}
			continue
		}
		d.Fields = append(d.Fields, Field{Name: fname, Ty: g.ty(g.p.MaxDepth, d)})
	}
}

func embeds(d *Decl, name string) bool {
	for _, f := range d.Fields {
		if f.Embedded && f.Name == name {
			return true
		}
	}
	return false
}

func (g *gen) leaf() *Ty {
	t := g.t
	switch t.Intn(4) {
	case 0, 1:
		return Basic(basics[t.Intn(len(basics))])
	case 2:
		for _, d := range g.w.Decls {
			if !d.Struct && d.Under.K == "basic" && t.Bool() {
				return Named("", d.Name)
			}
		}
		return Basic("int")
	}
	return Basic("string")
}

func (g *gen) keyTy() *Ty {
	t := g.t
	switch t.Intn(5) {
	case 0, 1:
		return Basic([]string{"string", "int", "bool", "uint8", "int64"}[t.Intn(5)])
	case 2:
		for _, d := range g.w.Decls {
			if !d.Struct && d.Under.K == "basic" {
				return Named("", d.Name)
			}
		}
	case 3:
		return Array(1+t.Intn(3), Basic([]string{"int", "string"}[t.Intn(2)]))
	case 4:
		for _, d := range g.w.Decls {
			ty := Named("", d.Name)
			if d.Struct && len(d.Fields) > 0 && g.w.ValueKey(ty) {
				return ty
			}
		}
	}
	return Basic("string")
}

// structRef picks a struct type declared so far (self allowed behind a
// pointer or slice only: the caller wraps).
func (g *gen) structRef(self *Decl, allowSelf bool) *Ty {
	t := g.t
	var cands []*Ty
	for _, d := range g.w.Decls {
		if d.Struct && (d != self || allowSelf) {
			cands = append(cands, Named("", d.Name))
		}
	}
	if g.w.HasExt {
		cands = append(cands, Named("ext", "T"), Named("ext", "U"), Named("ext", "V"), Named("ext", "X"), Named("oext", "T"), Named("oext", "W"), Named("op", "G"), Named("op", "User"), Named("kgo", "M"))
	}
	if len(cands) == 0 {
		return nil
	}
	return cands[t.Intn(len(cands))]
}

// ty draws a type of at most the given constructor depth.
func (g *gen) ty(depth int, self *Decl) *Ty {
	t := g.t
	if depth <= 0 {
		return g.leaf()
	}
	switch t.Intn(9) {
	case 0, 1:
		return g.leaf()
	case 2:
		return Ptr(g.tyOrStruct(depth-1, self, true))
	case 3:
		return Slice(g.tyOrStruct(depth-1, self, true))
	case 4:
		return Array(1+t.Intn(3), g.ty(depth-1, self))
	case 5:
		return Map(g.keyTy(), g.tyOrStruct(depth-1, self, true))
	case 6:
		if s := g.structRef(self, false); s != nil {
			return s
		}
	case 7:
		for _, d := range g.w.Decls {
			if !d.Struct && d.Under.K != "basic" && t.Bool() {
				return Named("", d.Name)
			}
		}
	case 8:
		if s := g.structRef(self, true); s != nil && self != nil && s.Name == self.Name && s.Pkg == "" {
			return Ptr(s)
		}
	}
	return g.leaf()
}

func (g *gen) tyOrStruct(depth int, self *Decl, allowSelf bool) *Ty {
	if g.t.Chance(1, 3) {
		if s := g.structRef(self, allowSelf); s != nil {
			return s
		}
	}
	return g.ty(depth, self)
}

// anyTy: a type for a derive call argument.
func (g *gen) anyTy() *Ty {
	t := g.t
	switch t.Intn(6) {
	case 0, 1, 2:
		if s := g.structRef(nil, true); s != nil {
			if t.Intn(3) > 0 {
				return Ptr(s)
			}
			return s
		}
	case 3:
		return g.ty(g.p.MaxDepth, nil)
	case 4:
		for _, d := range g.w.Decls {
			if !d.Struct && t.Bool() {
				return Named("", d.Name)
			}
		}
	}
	return g.ty(1, nil)
}

// ---- calls ------------------------------------------------------------------

func (g *gen) pickPlugin() string {
	ps := g.p.Plugins
	if ps == nil {
		ps = AllPlugins
		if !g.p.Concurrency {
			ps = AllPlugins[:len(AllPlugins)-3]
		}
	}
	return ps[g.t.Intn(len(ps))]
}

// finish assigns name, form, file; enforces the "one name per (plugin,
// assignable argument list)" constraint. Returns nil when the call would
// clash with an earlier one.
func (g *gen) finish(c *Call, pkg string) *Call {
	w, t := g.w, g.t
	c.Pkg = pkg
	for i := range c.Args {
		if n := c.Args[i].Nested; n != nil {
			if g.finish(n, pkg) == nil {
				return nil
			}
		}
	}
	if c.Curried != nil && c.Curried.Nested != nil {
		if g.finish(c.Curried.Nested, pkg) == nil {
			return nil
		}
	}
	exact := w.exactKey(c)
	sfxFound, found := "", false
	for _, prev := range g.prev {
		if prev.pkg != pkg || prev.plugin != c.Plugin || len(prev.args) != len(c.Args) {
			continue
		}
		if prev.exact == exact {
			sfxFound, found = prev.sfx, true
			break
		}
		// mutually assignable but not identical argument lists are, for
		// goderive, the same function: never give them two user names
		all := true
		for i, a := range c.Args {
			if !w.assignable(a.Ty, prev.args[i]) {
				all = false
				break
			}
		}
		if all {
			return nil
		}
	}
	if found {
		c.Suffix = sfxFound
	} else {
		sfx := ""
		if n := t.Intn(4); n > 0 || g.taken(pkg, c.Plugin, "") {
			sfx = fmt.Sprintf("%c%d", "XYZ"[t.Intn(3)], g.id())
		}
		if g.taken(pkg, c.Plugin, sfx) {
			sfx = fmt.Sprintf("U%d", g.id())
		}
		c.Suffix = sfx
		g.used[pkg+"/"+c.Plugin+sfx] = exact
		var tys []*Ty
		for _, a := range c.Args {
			tys = append(tys, a.Ty)
		}
		g.prev = append(g.prev, prevCall{pkg, c.Plugin, exact, sfx, tys})
	}
	c.ID = g.id()
	if c.File == 0 {
		c.File = t.Intn(w.NFiles)
	}
	if g.p.Forms {
		c.Form = []int{0, 0, 0, 1, 2}[t.Intn(5)]
	}
	if g.p.TestFile && t.Chance(1, 8) && pkg == "" {
		c.Test = true
	}
	return c
}

func (g *gen) taken(pkg, plugin, sfx string) bool {
	_, ok := g.used[pkg+"/"+plugin+sfx]
	return ok
}

func p(name string, ty *Ty) Arg { return Arg{Param: name, Ty: ty} }

// simple builds the canonical call of a plugin on type T (nil if T does not
// fit the plugin's documented shapes).
func (g *gen) simple(plugin string, T *Ty) *Call {
	w := g.w
	noPtrInside := !w.hasKind(T, map[string]bool{"chan": true, "func": true, "iface": true}, 0)
	_ = noPtrInside
	switch plugin {
	case "equal", "compare":
		return &Call{Plugin: plugin, Args: []Arg{p("a", T), p("b", T)}, NRes: 1, ResTy: Basic("bool")}
	case "hash":
		return &Call{Plugin: plugin, Args: []Arg{p("a", T)}, NRes: 1}
	case "clone":
		return &Call{Plugin: plugin, Args: []Arg{p("a", T)}, NRes: 1, ResTy: T}
	case "gostring":
		if !w.AllExported(stripIndirections(T), 0) || usesExt(T) {
			return nil
		}
		return &Call{Plugin: plugin, Args: []Arg{p("a", T)}, NRes: 1}
	case "deepcopy":
		switch T.K {
		case "ptr", "slice", "map":
			return &Call{Plugin: plugin, Args: []Arg{p("a", T), p("b", T)}, NRes: 0}
		}
		return &Call{Plugin: plugin, Args: []Arg{p("a", Ptr(T)), p("b", Ptr(T))}, NRes: 0}
	}
	return nil
}

func usesExt(t *Ty) bool {
	s := map[string]bool{}
	t.uses(s)
	return s["ext"] || s["oext"] || s["op"] || s["kgo"]
}

// elemFor draws an element type suitable for list helpers of a plugin.
func (g *gen) elemFor(plugin string) *Ty {
	w, t := g.w, g.t
	for try := 0; try < 6; try++ {
		var e *Ty
		switch t.Intn(4) {
		case 0:
			e = g.leaf()
		case 1:
			if s := g.structRef(nil, true); s != nil {
				if t.Bool() {
					e = Ptr(s)
				} else {
					e = s
				}
			}
		case 2:
			e = g.ty(1, nil)
		case 3:
			e = g.keyTy()
		}
		if e == nil {
			continue
		}
		switch plugin {
		case "set":
			if !w.ValueKey(e) {
				continue
			}
		case "min", "max", "sort":
			// natural < for basic element types: bool and complex are not ordered
			if u := w.under(e); u.K == "basic" && !w.OrderedBasic(e) {
				continue
			}
		}
		return e
	}
	return Basic("int")
}

func (g *gen) genCall(pkg string) *Call {
	w, t := g.w, g.t
	plugin := g.pickPlugin()
	var c *Call
	switch plugin {
	case "equal", "compare", "hash", "clone", "gostring", "deepcopy":
		T := g.anyTy()
		c = g.simple(plugin, T)
		if c == nil {
			return nil
		}
		if (plugin == "equal" || plugin == "compare") && g.p.Curried && t.Chance(1, 6) {
			b := c.Args[1]
			c.Args = c.Args[:1]
			c.Curried = &b
		}
		if plugin == "equal" && g.p.Nested && t.Chance(1, 8) {
			// deriveEqual(deriveClone(x), x)
			inner := g.simple("clone", T)
			c.Args[0] = Arg{Nested: inner, Ty: T}
			c.Args[len(c.Args)-1] = p("a", T)
			if c.Curried != nil {
				c.Curried = nil
				c.Args = append(c.Args, p("a", T))
			}
		}
	case "keys":
		m := Map(g.keyTy(), g.ty(1, nil))
		c = &Call{Plugin: plugin, Args: []Arg{p("m", m)}, NRes: 1, ResTy: Slice(m.Key)}
	case "sort", "unique", "set":
		e := g.elemFor(plugin)
		if g.p.Nested && t.Chance(1, 4) {
			m := Map(g.keyTy(), g.leaf())
			if plugin == "set" && !w.ValueKey(m.Key) {
				return nil
			}
			inner := &Call{Plugin: "keys", Args: []Arg{p("m", m)}, NRes: 1, ResTy: Slice(m.Key)}
			c = &Call{Plugin: plugin, Args: []Arg{{Nested: inner, Ty: Slice(m.Key)}}, NRes: 1, ResTy: Slice(m.Key)}
		} else {
			c = &Call{Plugin: plugin, Args: []Arg{p("l", Slice(e))}, NRes: 1, ResTy: Slice(e)}
		}
	case "contains":
		e := g.elemFor(plugin)
		if g.p.Nested && t.Chance(1, 5) {
			m := Map(g.keyTy(), g.leaf())
			inner := &Call{Plugin: "keys", Args: []Arg{p("m", m)}, NRes: 1}
			c = &Call{Plugin: plugin, Args: []Arg{{Nested: inner, Ty: Slice(m.Key)}, p("k", m.Key)}, NRes: 1}
		} else {
			c = &Call{Plugin: plugin, Args: []Arg{p("l", Slice(e)), p("e", e)}, NRes: 1}
		}
	case "min", "max":
		e := g.elemFor(plugin)
		if t.Bool() {
			c = &Call{Plugin: plugin, Args: []Arg{p("l", Slice(e)), p("d", e)}, NRes: 1}
		} else {
			c = &Call{Plugin: plugin, Args: []Arg{p("a", e), p("b", e)}, NRes: 1}
		}
	case "union", "intersect":
		e := g.elemFor("set")
		if t.Chance(1, 3) {
			m := Map(e, EmptyStruct())
			c = &Call{Plugin: plugin, Args: []Arg{p("a", m), p("b", m)}, NRes: 1}
		} else {
			e2 := g.elemFor(plugin)
			c = &Call{Plugin: plugin, Args: []Arg{p("a", Slice(e2)), p("b", Slice(e2))}, NRes: 1}
		}
	case "fmap":
		a, b := g.elemFor(plugin), g.elemFor(plugin)
		switch t.Intn(4) {
		case 0, 1:
			if g.p.Nested && t.Chance(1, 4) {
				m := Map(g.keyTy(), g.leaf())
				inner := &Call{Plugin: "keys", Args: []Arg{p("m", m)}, NRes: 1}
				c = &Call{Plugin: plugin, Args: []Arg{p("f", Func([]*Ty{m.Key}, []*Ty{b})), {Nested: inner, Ty: Slice(m.Key)}}, NRes: 1}
			} else {
				c = &Call{Plugin: plugin, Args: []Arg{p("f", Func([]*Ty{a}, []*Ty{b})), p("l", Slice(a))}, NRes: 1}
			}
		case 2:
			c = &Call{Plugin: plugin, Args: []Arg{p("f", Func([]*Ty{Basic("rune")}, []*Ty{b})), p("s", Basic("string"))}, NRes: 1}
		case 3:
			// func(A) B over func() (A, error)
			c = &Call{Plugin: plugin, Args: []Arg{p("f", Func([]*Ty{a}, []*Ty{b})), p("g", Func(nil, []*Ty{a, Error}))}, NRes: 2}
		}
	case "join":
		switch t.Intn(3) {
		case 0:
			e := g.elemFor(plugin)
			c = &Call{Plugin: plugin, Args: []Arg{p("l", Slice(Slice(e)))}, NRes: 1}
		case 1:
			c = &Call{Plugin: plugin, Args: []Arg{p("l", Slice(Basic("string")))}, NRes: 1}
		case 2:
			e := g.elemFor(plugin)
			c = &Call{Plugin: plugin, Args: []Arg{p("f", Func(nil, []*Ty{e, Error})), p("err", Error)}, NRes: 2}
		}
	case "filter", "takewhile", "all", "any":
		e := g.elemFor(plugin)
		c = &Call{Plugin: plugin, Args: []Arg{p("pred", Func([]*Ty{e}, []*Ty{Basic("bool")})), p("l", Slice(e))}, NRes: 1}
	case "curry", "flip":
		n := 2 + t.Intn(3)
		var ps []*Ty
		for i := 0; i < n; i++ {
			ps = append(ps, g.elemFor(plugin))
		}
		var rs []*Ty
		for i := g.nres(); i > 0; i-- {
			rs = append(rs, g.leaf())
		}
		c = &Call{Plugin: plugin, Args: []Arg{p("f", Func(ps, rs))}, NRes: 1}
	case "uncurry":
		a := g.elemFor(plugin)
		var ps []*Ty
		for i := 1 + t.Intn(2); i > 0; i-- {
			ps = append(ps, g.leaf())
		}
		var rs []*Ty
		for i := g.nres(); i > 0; i-- {
			rs = append(rs, g.leaf())
		}
		inner := Func(ps, rs)
		inner.PBase = "b"
		c = &Call{Plugin: plugin, Args: []Arg{p("f", Func([]*Ty{a}, []*Ty{inner}))}, NRes: 1}
	case "apply":
		var ps []*Ty
		for i := 1 + t.Intn(3); i > 0; i-- {
			ps = append(ps, g.leaf())
		}
		last := g.elemFor(plugin)
		ps = append(ps, last)
		c = &Call{Plugin: plugin, Args: []Arg{p("f", Func(ps, []*Ty{g.leaf()})), p("b", last)}, NRes: 1}
	case "tuple":
		n := 1 + t.Intn(4)
		c = &Call{Plugin: plugin, NRes: 1}
		for i := 0; i < n; i++ {
			c.Args = append(c.Args, p(fmt.Sprintf("a%d", i), g.elemFor(plugin)))
		}
	case "compose":
		n := 2 + t.Intn(3)
		c = &Call{Plugin: plugin, NRes: 1}
		var in []*Ty
		for i := t.Intn(3); i > 0; i-- {
			in = append(in, g.leaf())
		}
		for i := 0; i < n; i++ {
			var out []*Ty
			for k := 1 + t.Intn(2); k > 0; k-- {
				out = append(out, g.resultTy())
			}
			c.Args = append(c.Args, p(fmt.Sprintf("f%d", i), Func(in, append(append([]*Ty{}, out...), Error))))
			in = out
		}
	case "mem":
		var ps, rs []*Ty
		for i := t.Intn(4); i > 0; i-- {
			ps = append(ps, g.elemFor(plugin))
		}
		for i := 1 + t.Intn(3); i > 0; i-- {
			rs = append(rs, g.leaf())
		}
		c = &Call{Plugin: plugin, Args: []Arg{p("f", Func(ps, rs))}, NRes: 1}
	case "traverse":
		a, b := g.elemFor(plugin), g.elemFor(plugin)
		c = &Call{Plugin: plugin, Args: []Arg{p("f", Func([]*Ty{a}, []*Ty{b, Error})), p("l", Slice(a))}, NRes: 2}
	case "toerror":
		var ps, rs []*Ty
		for i := t.Intn(3); i > 0; i-- {
			ps = append(ps, g.leaf())
		}
		for i := t.Intn(3); i > 0; i-- {
			rs = append(rs, g.resultTy())
		}
		c = &Call{Plugin: plugin, Args: []Arg{p("err", Error), p("f", Func(ps, append(rs, Basic("bool"))))}, NRes: 1}
	case "do":
		n := 2 + t.Intn(3)
		c = &Call{Plugin: plugin, NRes: n + 1}
		for i := 0; i < n; i++ {
			c.Args = append(c.Args, p(fmt.Sprintf("f%d", i), Func(nil, []*Ty{g.elemFor(plugin), Error})))
		}
	case "pipeline":
		a, b, cc := g.leaf(), g.leaf(), g.leaf()
		c = &Call{Plugin: plugin, Args: []Arg{p("f", Func([]*Ty{a}, []*Ty{Chan("recv", b)})), p("g", Func([]*Ty{b}, []*Ty{Chan("recv", cc)}))}, NRes: 1}
	case "dup":
		c = &Call{Plugin: plugin, Args: []Arg{p("c", Chan([]string{"recv", "both"}[t.Intn(2)], g.leaf()))}, NRes: 2}
	}
	if c == nil {
		return nil
	}
	if g.p.FuncParamForms {
		for i := range c.Args {
			if c.Args[i].Ty != nil && c.Args[i].Ty.K == "func" && c.Args[i].Nested == nil {
				c.Args[i].Ty.PNames = []int{0, 0, 0, 0, 1, 2, 3, 0}[t.Intn(8)]
			}
		}
	}
	if pkg == "q" {
		// q refers to p's types through its import: nothing else changes
	}
	return g.finish(c, pkg)
}

// nres: number of results of a function argument of curry/flip/uncurry (the
// documentation shows one result T; zero results only under ZeroResults).
func (g *gen) nres() int {
	if g.p.ZeroResults {
		return g.t.Intn(4)
	}
	return 1 + g.t.Intn(3)
}

// resultTy: types that flow between stages / out of error-propagating helpers.
func (g *gen) resultTy() *Ty {
	t := g.t
	switch t.Intn(6) {
	case 0, 1:
		return g.leaf()
	case 2:
		return Slice(g.leaf())
	case 3:
		if s := g.structRef(nil, true); s != nil {
			return Ptr(s)
		}
	case 4:
		return Map(Basic("string"), g.leaf())
	}
	return Basic("int")
}

// genUserFunc adds a hand-written, *called* function whose name is one that
// goderive would pick for an automatically named helper.
func (g *gen) genUserFunc() {
	w, t := g.w, g.t
	names := []string{"deriveCompare", "deriveEqual", "deriveKeys", "deriveSort", "deriveHash", "deriveCompare_", "deriveEqual_"}
	n := names[t.Intn(len(names))]
	pkg := ""
	if w.HasQ && t.Bool() {
		pkg = "q"
	}
	// skip if a derive call of that very name exists in the package (at any nesting depth)
	taken := false
	var visit func(c *Call)
	visit = func(c *Call) {
		if c == nil {
			return
		}
		if c.Pkg == pkg && w.FuncName(c) == n {
			taken = true
		}
		for _, a := range c.Args {
			visit(a.Nested)
		}
		if c.Curried != nil {
			visit(c.Curried.Nested)
		}
		visit(c.Pair)
	}
	for _, c := range append(append([]*Call{}, w.Calls...), w.QCalls...) {
		visit(c)
	}
	if taken {
		return
	}
	text := fmt.Sprintf("func %s(a, b complex64) complex64 { return a - b }\n\nvar _ = %s(1, 2)\n", n, n)
	if t.Bool() {
		// not a function declaration: a function-typed variable that is called
		text = fmt.Sprintf("var %s = func(a, b complex64) complex64 { return a - b }\n\nvar _ = %s(1, 2)\n", n, n)
	}
	w.UserFuncs = append(w.UserFuncs, UserFunc{Pkg: pkg, Name: n, Text: text, File: t.Intn(w.NFiles)})
}

// assignableCluster adds two (or three) named types with one underlying
// composite type, a struct with a field of that unnamed type, and calls of
// one plugin on all of them: the field helper can then be served by any of
// the named functions (mutually assignable argument lists).
func (g *gen) assignableCluster() {
	w, t := g.w, g.t
	under := []*Ty{Slice(Basic("int")), Map(Basic("string"), Basic("int")), Slice(Basic("string")), Slice(Slice(Basic("int")))}[t.Intn(4)]
	n := 2 + t.Intn(2)
	base := len(w.Decls)
	var names []*Ty
	for i := 0; i < n; i++ {
		d := &Decl{Name: fmt.Sprintf("A%d", base+i), Under: under, File: t.Intn(w.NFiles)}
		w.Decls = append(w.Decls, d)
		names = append(names, Named("", d.Name))
	}
	sd := &Decl{Name: fmt.Sprintf("S%d", base+n), Struct: true, File: t.Intn(w.NFiles), Fields: []Field{{Name: "F0", Ty: under}}}
	if t.Bool() {
		sd.Fields = append(sd.Fields, Field{Name: "F1", Ty: Basic("int")})
	}
	w.Decls = append(w.Decls, sd)
	plugin := []string{"equal", "compare", "hash", "clone", "deepcopy"}[t.Intn(5)]
	// order of the calls matters for which names exist when the helper is requested
	order := t.Intn(3)
	var calls []*Call
	for _, nt := range names {
		if c := g.simple(plugin, nt); c != nil {
			calls = append(calls, c)
		}
	}
	sc := g.simple(plugin, Ptr(Named("", sd.Name)))
	switch order {
	case 0:
		calls = append(calls, sc)
	case 1:
		calls = append([]*Call{sc}, calls...)
	default:
		calls = append(calls[:1], append([]*Call{sc}, calls[1:]...)...)
	}
	for _, c := range calls {
		if c == nil {
			continue
		}
		if f := g.finish(c, ""); f != nil {
			w.Calls = append(w.Calls, f)
		}
	}
}

// pairable: a flat single-result call in a plain function body.
func pairable(c *Call) bool {
	if c == nil || c.NRes != 1 || c.Curried != nil || c.Pair != nil || c.Test {
		return false
	}
	for _, a := range c.Args {
		if a.Nested != nil || a.Lit != "" {
			return false
		}
	}
	return true
}

// pairCalls moves some calls onto the source line of another one.
func (g *gen) pairCalls() {
	w, t := g.w, g.t
	for i := 0; i+1 < len(w.Calls); i++ {
		a, b := w.Calls[i], w.Calls[i+1]
		if pairable(a) && pairable(b) && t.Chance(1, 5) {
			a.Form = 0
			a.Pair = b
			w.Calls = append(w.Calls[:i+1:i+1], w.Calls[i+2:]...)
		}
	}
}

// deepNest builds a chain of 3-4 derive calls, each feeding the next, with
// plugin names repeating along the chain: every link only becomes typable
// one generation pass after the one below it.
//
//	deriveSort(deriveFilter(p, deriveFilter(q, deriveKeys(m))))
func (g *gen) deepNest() *Call {
	t := g.t
	k := Basic([]string{"string", "int", "int64"}[t.Intn(3)])
	m := Map(k, g.leaf())
	cur := &Call{Plugin: "keys", Args: []Arg{p("m", m)}, NRes: 1, ResTy: Slice(k)}
	if t.Chance(1, 3) {
		cur = nil // the chain starts from a plain slice parameter (an edit can later put a derive call there)
	}
	n := 2 + t.Intn(2)
	if t.Chance(1, 3) {
		n += 2 + t.Intn(3) // five to eight levels: one more generation pass per level
	}
	last := ""
	for i := 0; i < n; i++ {
		pl := []string{"filter", "sort", "unique", "filter", "takewhile"}[t.Intn(5)]
		if i == n-1 && pl == last && t.Bool() {
			pl = "sort"
		}
		last = pl
		in := Arg{Nested: cur, Ty: Slice(k)}
		if cur == nil {
			in = p("l", Slice(k))
		}
		switch pl {
		case "filter", "takewhile":
			cur = &Call{Plugin: pl, Args: []Arg{p(fmt.Sprintf("pred%d", i), Func([]*Ty{k}, []*Ty{Basic("bool")})), in}, NRes: 1, ResTy: Slice(k)}
		default:
			cur = &Call{Plugin: pl, Args: []Arg{in}, NRes: 1, ResTy: Slice(k)}
		}
	}
	return g.finish(cur, "")
}
