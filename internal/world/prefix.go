package world

import (
	"sort"
	"strings"

	"verif/tape"
)

// nestedPrefixGroups: overrides that make one plugin's prefix a proper
// prefix of another's (longest match must win).
var nestedPrefixGroups = [][][2]string{
	{{"sort", "deriveSort"}, {"set", "deriveSortedSet"}},
	{{"equal", "eq"}, {"compare", "eqc"}},
	{{"min", "mn"}, {"max", "mnx"}, {"mem", "mnxe"}},
	{{"keys", "k_"}, {"sort", "k_s"}},
	{{"hash", "deriveH"}, {"clone", "deriveHC"}},
	{{"fmap", "fm"}, {"filter", "fmf"}},
	{{"union", "merge"}, {"intersect", "mergeCommon"}},
	{{"curry", "part"}, {"uncurry", "partial"}},
	// one plugin takes the default prefix of another one, which is renamed itself (no two plugins share a prefix)
	{{"equal", "deriveCompare"}, {"compare", "deriveOrd"}},
	{{"compare", "deriveEqual"}, {"equal", "deriveSame"}},
	{{"keys", "deriveSort"}, {"sort", "deriveOrder"}},
	{{"min", "deriveMax"}, {"max", "deriveMost"}},
}

var flatOverrides = [][2]string{
	{"equal", "isEq"}, {"compare", "cmp"}, {"clone", "cp_"}, {"deepcopy", "copyTo"}, {"gostring", "goStr"}, {"unique", "uniq"},
	{"contains", "has"}, {"union", "or_"}, {"intersect", "and_"}, {"tuple", "tup"}, {"compose", "then"}, {"traverse", "trav"},
	// every plugin can be overridden; several plugin names are substrings of others (curry / uncurry, set / ...)
	{"uncurry", "flat"}, {"curry", "spice"}, {"flip", "turn"}, {"mem", "memo"}, {"keys", "ks"}, {"sort", "ord"}, {"set", "mkset"},
	{"hash", "h_"}, {"min", "least"}, {"max", "most"}, {"all", "every"}, {"any", "some"}, {"do", "par"}, {"join", "flatten"},
	{"fmap", "mapf"}, {"filter", "keep"}, {"takewhile", "tw"}, {"apply", "app"}, {"toerror", "mustOk"}, {"pipeline", "pipe"}, {"dup", "tee"},
	{"uncurry", "flat"}, {"curry", "spice"},
	// a prefix is only the start of an identifier: a Go keyword is a legal one (dropped again when a call of the plugin has no suffix)
	{"fmap", "map"}, {"filter", "select"}, {"any", "go"}, {"all", "range"},
}

// DrawPrefixes sets w.GlobalPfx / w.Prefix from the tape (nothing when the
// first draw is 0) and returns the goderive flags that go with them.
func (w *World) DrawPrefixes(t *tape.Tape) {
	defer w.retargetUserFuncs()
	switch t.Intn(4) {
	case 0:
		return
	case 1:
		w.GlobalPfx = []string{"gen", "zq", "Derive", "d"}[t.Intn(4)]
		return
	case 2:
		w.GlobalPfx = []string{"", "gen", "zq"}[t.Intn(3)]
	}
	w.Prefix = map[string]string{}
	if t.Bool() {
		g := nestedPrefixGroups[t.Intn(len(nestedPrefixGroups))]
		if w.NestedGroup > 0 && t.Chance(2, 3) {
			// the group whose plugins the package calls side by side (nestedGroupCalls)
			g = nestedPrefixGroups[(w.NestedGroup-1)%len(nestedPrefixGroups)]
		}
		for _, kv := range g {
			w.Prefix[kv[0]] = kv[1]
		}
	}
	for i := t.Intn(3); i > 0; i-- {
		kv := flatOverrides[t.Intn(len(flatOverrides))]
		if t.Chance(1, 3) && len(w.Calls) > 0 {
			// an override for a plugin the package uses
			pl := w.Calls[t.Intn(len(w.Calls))].Plugin
			for _, cand := range flatOverrides {
				if cand[0] == pl {
					kv = cand
					break
				}
			}
		}
		if _, ok := w.Prefix[kv[0]]; !ok {
			w.Prefix[kv[0]] = kv[1]
		}
	}
	w.PrefixRot = t.Intn(3)
	// an override that is a keyword cannot be used for a call without a suffix (the call would be the keyword itself)
	for pl, px := range w.Prefix {
		switch px {
		case "map", "select", "go", "range":
			bare := false
			var visit func(c *Call)
			visit = func(c *Call) {
				if c == nil {
					return
				}
				if c.Plugin == pl && c.Suffix == "" {
					bare = true
				}
				for _, a := range c.Args {
					visit(a.Nested)
				}
				if c.Curried != nil {
					visit(c.Curried.Nested)
				}
				visit(c.Pair)
			}
			for _, c := range w.Calls {
				visit(c)
			}
			for _, c := range w.QCalls {
				visit(c)
			}
			if bare {
				delete(w.Prefix, pl)
			}
		}
	}
	if len(w.Prefix) == 0 {
		w.Prefix = nil
	}
	if len(w.Prefix) == 0 {
		w.Prefix = nil
	}
}

// PrefixFlags returns the command line flags for the world's prefix map.
func (w *World) PrefixFlags() []string {
	var fl []string
	if w.GlobalPfx != "" {
		fl = append(fl, "-prefix="+w.GlobalPfx)
	}
	if len(w.Prefix) > 0 {
		ks := make([]string, 0, len(w.Prefix))
		for k := range w.Prefix {
			ks = append(ks, k)
		}
		sort.Strings(ks)
		var ps []string
		for _, k := range ks {
			ps = append(ps, k+"="+w.Prefix[k])
		}
		// the order of the pairs on the command line is a drawn rotation of the sorted order
		if n := len(ps); n > 1 {
			r := w.PrefixRot % n
			ps = append(ps[r:], ps[:r]...)
		}
		fl = append(fl, "-pluginprefix="+strings.Join(ps, ","))
	}
	return fl
}

// PrefixOf exposes the effective prefix of a plugin.
func (w *World) PrefixOf(plugin string) string { return w.prefixOf(plugin) }

// retargetUserFuncs renames hand-written functions with derive-like names to
// the corresponding names under the world's prefix map ("deriveEqual_" becomes
// "genEqual_" under -prefix=gen): they stay candidates for the names goderive
// invents. One whose new name is the name of a derive call is dropped.
func (w *World) retargetUserFuncs() {
	if w.GlobalPfx == "" && len(w.Prefix) == 0 {
		return
	}
	callNames := map[string]bool{}
	var visit func(c *Call)
	visit = func(c *Call) {
		if c == nil {
			return
		}
		callNames[w.FuncName(c)] = true
		for _, a := range c.Args {
			visit(a.Nested)
		}
		if c.Curried != nil {
			visit(c.Curried.Nested)
		}
		visit(c.Pair)
	}
	for _, c := range w.Calls {
		visit(c)
	}
	for _, c := range w.QCalls {
		visit(c)
	}
	var plugins []string
	for pl := range PluginPrefix {
		plugins = append(plugins, pl)
	}
	sort.Slice(plugins, func(i, j int) bool {
		a, b := PluginPrefix[plugins[i]], PluginPrefix[plugins[j]]
		if len(a) != len(b) {
			return len(a) > len(b)
		}
		return a < b
	})
	var keep []UserFunc
	for _, u := range w.UserFuncs {
		for _, pl := range plugins {
			def := PluginPrefix[pl]
			if strings.HasPrefix(u.Name, def) {
				rest := u.Name[len(def):]
				if rest == "" || rest == "_" || rest == "_1" {
					n := w.prefixOf(pl) + rest
					u.Text = strings.ReplaceAll(u.Text, u.Name+"(", n+"(")
					u.Text = strings.ReplaceAll(u.Text, "var "+u.Name+" =", "var "+n+" =")
					u.Name = n
				}
				break
			}
		}
		if !callNames[u.Name] {
			keep = append(keep, u)
		}
	}
	w.UserFuncs = keep
}
