package seqgen

import (
	"fmt"
	"strings"

	"verif/tape"
)

// mty: parameter types of Mem with a pool of argument literals. Literals are
// expressions, so every use builds a fresh value: repeats are Equal but not
// identical. The pools contain nil vs empty containers, equal contents at
// distinct addresses, and pairs that collide under the 31-polynomial hash the
// generated Hash uses ([]int{0,31} / []int{1,0}; "Aa" / "BB").
type mty struct {
	Go         string
	Vals       []string
	Comparable bool
}

// memCollide: indices into Vals of two unequal values with the same generated hash.
var memCollide = map[string][2]int{
	"string": {2, 3}, "[2]int": {1, 2}, "[]int": {2, 3}, "[]string": {1, 2}, "T2": {1, 2},
}

var memPool = []mty{
	{"int", []string{"0", "1", "2", "-1", "31"}, true},
	{"string", []string{`""`, `"a"`, `"Aa"`, `"BB"`, `"b"`, `"a\x00"`, `"\x00b"`}, true},
	{"Name", []string{`Name("")`, `Name("a")`, `Name("Aa")`, `Name("BB")`, `Name("b")`, `Name("a\x00")`, `Name("\x00b")`}, true},
	{"[]Celsius", []string{"[]Celsius(nil)", "[]Celsius{0}", "[]Celsius{Celsius(negZero())}", "[]Celsius{1.5}", "[]Celsius{0, 1.5}", "[]Celsius{Celsius(negZero()), 1.5}"}, false},
	{"T3", []string{"T3{}", "T3{C: Celsius(negZero())}", "T3{K: Kelvin(negZero()), L: []int{1}}", "T3{L: []int{1}}", "T3{C: 2}"}, false},
	{"MyInt", []string{"MyInt(0)", "MyInt(5)", "MyInt(5)"}, true},
	{"S", []string{"S{}", `S{A: 1, B: "x"}`, `S{A: 1, B: "y"}`, `S{A: 1, B: "x"}`}, true},
	{"[2]int", []string{"[2]int{0, 0}", "[2]int{0, 31}", "[2]int{1, 0}"}, true},
	{"*S", []string{"(*S)(nil)", "&S{A: 1}", "&S{A: 1}", "&S{A: 2}"}, false},
	{"[]int", []string{"[]int(nil)", "[]int{}", "[]int{0, 31}", "[]int{1, 0}", "[]int{1, 2}", "[]int{1, 2}", "[]int{2, 1}"}, false},
	{"map[string]int", []string{"map[string]int(nil)", "map[string]int{}", `map[string]int{"a": 1, "b": 2}`, `map[string]int{"b": 2, "a": 1}`, `map[string]int{"a": 2}`, `map[string]int{"Aa": 1, "BB": 2}`, `map[string]int{"BB": 2, "Aa": 1}`, `map[string]int{"Aa": 2, "BB": 1}`, `map[string]int{"Aa": 1, "BB": 2, "C": 3}`}, false},
	{"[]string", []string{"[]string(nil)", `[]string{"Aa"}`, `[]string{"BB"}`, `[]string{"a", "b"}`, `[]string{"a", "b"}`}, false},
	{"[][]int", []string{"[][]int(nil)", "[][]int{{1}, {2}}", "[][]int{{1, 2}}", "[][]int{{}, nil}", "[][]int{{1}, {2}}"}, false},
	{"T2", []string{"T2{}", "T2{L: []int{0, 31}}", "T2{L: []int{1, 0}}", "T2{N: 1}", "T2{L: []int{0, 31}}"}, false},
	{"*int", []string{"(*int)(nil)", "ptr(1)", "ptr(1)", "ptr(2)"}, false},
	{"bool", []string{"false", "true"}, true},
	{"map[string][]int", []string{"map[string][]int(nil)", `map[string][]int{"AaBB": {1}, "BBAa": {2}, "AaAa": nil}`, `map[string][]int{"BBAa": {2}, "AaAa": nil, "AaBB": {1}}`, `map[string][]int{"AaBB": {2}, "BBAa": {1}, "AaAa": nil}`}, false},
	{"map[int][]string", []string{"map[int][]string(nil)", `map[int][]string{1: {"a"}, 2: nil}`, `map[int][]string{2: nil, 1: {"a"}}`, `map[int][]string{1: {"b"}}`}, false},
}

var memFloat = mty{"float64", []string{"0.0", "negZero()", "1.5", "2.5"}, true}
var memFloatSlice = mty{"[]float64", []string{"[]float64{0}", "[]float64{negZero()}", "[]float64{1.5}"}, false}

// results may be zero / nil values: a memoised nil must stay memoised
var memResults = []struct{ Go, Mk string }{
	{"[]int", "func() []int {\n\t\tif (h+SALT)%2 == 0 {\n\t\t\treturn nil\n\t\t}\n\t\treturn []int{int(h % 7)}\n\t}()"},
	{"*S", "func() *S {\n\t\tif (h+SALT)%2 == 0 {\n\t\t\treturn nil\n\t\t}\n\t\treturn &S{A: int(h % 13)}\n\t}()"},
	{"error", "func() error {\n\t\tif (h+SALT)%2 == 0 {\n\t\t\treturn nil\n\t\t}\n\t\treturn errA\n\t}()"},
	{"map[string]int", "func() map[string]int {\n\t\tif (h+SALT)%2 == 0 {\n\t\t\treturn nil\n\t\t}\n\t\treturn map[string]int{\"k\": int(h % 5)}\n\t}()"},
	{"int", "int((h + SALT) % 2)"},
	{"int", "int(h % 1000)"},
	{"string", "fmt.Sprint(\"r\", h%97)"},
	{"[]int", "[]int{int(h % 7), 1}"},
	{"S", "S{A: int(h % 13)}"},
	{"MyInt", "MyInt(h % 5)"},
}

// GenC18 draws one Mem signature with a set of call histories.
func GenC18(name string, t *tape.Tape) *Shape {
	np := t.Intn(4)
	nr := 1 + t.Intn(3)
	if t.Chance(1, 10) {
		nr = 0 // the no-result form
	}
	var ps []mty
	stringsOnly := t.Chance(1, 10)
	if stringsOnly {
		// a parameter list of strings only (the comparable form keyed by a struct of strings)
		np = 2 + t.Intn(2)
	}
	for i := 0; i < np; i++ {
		if stringsOnly {
			ps = append(ps, memPool[1+t.Intn(2)]) // string, Name
			continue
		}
		switch {
		case t.Chance(1, 12):
			ps = append(ps, memFloat)
		case t.Chance(1, 16):
			ps = append(ps, memFloatSlice)
		default:
			ps = append(ps, memPool[t.Intn(len(memPool))])
		}
	}
	type rt struct{ Go, Mk string }
	var rs []rt
	for i := 0; i < nr; i++ {
		r := memResults[t.Intn(len(memResults))]
		rs = append(rs, rt{r.Go, r.Mk})
	}
	var sb strings.Builder
	fmt.Fprintf(&sb, header, name)
	sb.WriteString(`
type T2 struct {
	N int
	L []int
}

type Name string

type Celsius float64

type Kelvin float32

type T3 struct {
	C Celsius
	K Kelvin
	L []int
}

func ptr(i int) *int { return &i }

func negZero() float64 { z := 0.0; return -z }

var count map[string]int
var _ = math.Pi

// links makes f re-entrant: while f runs for the argument class on the left it
// calls the memoised function for another class (never one that is still
// being evaluated, which would not terminate for f itself either).
var links map[string]func()
var active map[string]bool
`)
	ptypes := make([]string, np)
	pnames := vars("p", np)
	for i, p := range ps {
		ptypes[i] = fmt.Sprintf("p%d %s", i, p.Go)
	}
	rtypes := make([]string, nr)
	rmk := make([]string, nr)
	for i, r := range rs {
		rtypes[i] = r.Go
		rmk[i] = r.Mk
	}
	resSig := ""
	switch nr {
	case 0:
	case 1:
		resSig = " " + rtypes[0]
	default:
		resSig = " (" + strings.Join(rtypes, ", ") + ")"
	}
	keyArgs := strings.Join(pnames, ", ")
	fmt.Fprintf(&sb, "\nfunc model(key string) []any {\n\th := seqrt.Hash64(key)\n\t_ = h\n\treturn []any{%s}\n}\n", strings.Join(rmk, ", "))
	fmt.Fprintf(&sb, "\nfunc f(%s)%s {\n\tkey := seqrt.Key(%s)\n\tcount[key]++\n\tcalls++\n\tif nx, ok := links[key]; ok && !active[key] {\n\t\tactive[key] = true\n\t\tnx()\n\t\tactive[key] = false\n\t}\n\th := seqrt.Hash64(key)\n\t_ = h\n\treturn %s\n}\n", strings.Join(ptypes, ", "), resSig, keyArgs, strings.Join(rmk, ", "))
	// histories
	nh := 4 + t.Intn(5)
	var hist strings.Builder
	var decoded []string
	for h := 0; h < nh; h++ {
		ncalls := 1 + t.Intn(16)
		var tuples [][]int
		fmt.Fprintf(&hist, "\t{ // history %d\n\t\tcount = map[string]int{}\n\t\tmem := deriveMem(f)\n\t\tvar seen []string\n", h)
		var desc []string
		fmt.Fprintf(&hist, "\t\tlinks, active = map[string]func(){}, map[string]bool{}\n")
		if np > 0 && t.Chance(1, 3) {
			// re-entrant history: f called for src calls mem(dst) before it returns
			nl := 1 + t.Intn(4)
			var prev []int
			for l := 0; l < nl; l++ {
				var src, dst []int
				if prev != nil && t.Bool() {
					src = prev // a chain
				} else {
					for _, p := range ps {
						src = append(src, t.Intn(len(p.Vals)))
					}
				}
				dst = append([]int(nil), src...)
				collided := false
				if t.Bool() {
					// same bucket, different class: swap one parameter for its colliding partner
					for i, p := range ps {
						if cp, ok := memCollide[p.Go]; ok && (src[i] == cp[0] || src[i] == cp[1]) {
							dst[i] = cp[0] + cp[1] - src[i]
							collided = true
							break
						}
					}
				}
				if !collided {
					for i, p := range ps {
						dst[i] = t.Intn(len(p.Vals))
					}
				}
				prev = dst
				sa, da := make([]string, np), make([]string, np)
				for i, p := range ps {
					sa[i], da[i] = p.Vals[src[i]], p.Vals[dst[i]]
				}
				srcS, dstS := strings.Join(sa, ", "), strings.Join(da, ", ")
				rv := vars("r", nr)
				call := fmt.Sprintf("mem(%s)", dstS)
				chk := ""
				if nr > 0 {
					call = strings.Join(rv, ", ") + " := " + call
					chk = fmt.Sprintf("\t\t\tif want := model(k); !reflect.DeepEqual([]any{%s}, want) {\n\t\t\t\tproblem(res, \"wrong-result\", %q, fmt.Sprintf(\"re-entrant call: mem returns %%v, f returns %%v\", []any{%s}, want))\n\t\t\t}\n", strings.Join(rv, ", "), fmt.Sprintf("history %d", h), strings.Join(rv, ", "))
				}
				fmt.Fprintf(&hist, "\t\tlinks[seqrt.Key(%s)] = func() {\n\t\t\tk := seqrt.Key(%s)\n\t\t\tif active[k] {\n\t\t\t\treturn\n\t\t\t}\n\t\t\tseen = append(seen, k)\n\t\t\t%s\n%s\t\t}\n", srcS, dstS, call, chk)
				desc = append(desc, "[f("+srcS+") calls mem("+dstS+")]")
				// make sure the source class is called in this history
				tuples = append(tuples, src)
			}
		}
		allStr := np >= 2
		for _, p := range ps {
			if p.Go != "string" && p.Go != "Name" {
				allStr = false
			}
		}
		for c := 0; c < ncalls; c++ {
			var tup []int
			if allStr && h == 0 && c < 2 {
				// two different tuples of strings whose concatenation with a separator coincides:
				// ("a\x00", "b", ...) and ("a", "\x00b", ...)
				tup = make([]int, np)
				for i := range tup {
					tup[i] = 1
				}
				if c == 0 {
					tup[0], tup[1] = 5, 4
				} else {
					tup[0], tup[1] = 1, 6
				}
			} else if len(tuples) > 0 && t.Bool() {
				tup = tuples[t.Intn(len(tuples))] // a repeat (fresh, Equal values)
			} else {
				for _, p := range ps {
					tup = append(tup, t.Intn(len(p.Vals)))
				}
			}
			tuples = append(tuples, tup)
			args := make([]string, np)
			for i, p := range ps {
				args[i] = p.Vals[tup[i]]
			}
			argStr := strings.Join(args, ", ")
			desc = append(desc, "("+argStr+")")
			rv := vars("r", nr)
			if nr > 0 {
				fmt.Fprintf(&hist, "\t\t{\n\t\t\tkey := seqrt.Key(%s)\n\t\t\tseen = append(seen, key)\n\t\t\t%s := mem(%s)\n\t\t\tif want := model(key); !reflect.DeepEqual([]any{%s}, want) {\n\t\t\t\tproblem(res, \"wrong-result\", %q, fmt.Sprintf(\"call %d: mem returns %%v, f returns %%v\", []any{%s}, want))\n\t\t\t}\n\t\t}\n",
					argStr, strings.Join(rv, ", "), argStr, strings.Join(rv, ", "), fmt.Sprintf("history %d", h), c, strings.Join(rv, ", "))
			} else {
				fmt.Fprintf(&hist, "\t\t{\n\t\t\tkey := seqrt.Key(%s)\n\t\t\tseen = append(seen, key)\n\t\t\tmem(%s)\n\t\t}\n", argStr, argStr)
			}
		}
		fmt.Fprintf(&hist, "\t\tfor _, k := range seen {\n\t\t\tif count[k] > 1 {\n\t\t\t\tproblem(res, \"f-invoked-more-than-once\", %q, fmt.Sprintf(\"f ran %%d times for the argument class %%s in the call sequence %%s\", count[k], k, %q))\n\t\t\t\tbreak\n\t\t\t}\n\t\t\tif count[k] == 0 {\n\t\t\t\tproblem(res, \"f-never-invoked\", %q, fmt.Sprintf(\"f never ran for the argument class %%s\", k))\n\t\t\t\tbreak\n\t\t\t}\n\t\t}\n\t\tres.Cases++\n\t\tres.Sample = %q\n\t}\n",
			fmt.Sprintf("history %d", h), strings.Join(desc, " "), fmt.Sprintf("history %d", h), strings.Join(desc, " "))
		decoded = append(decoded, strings.Join(desc, " "))
	}
	fmt.Fprintf(&sb, "\nfunc Run() *seqrt.Result {\n\tres := &seqrt.Result{Shape: %q}\n%s\tres.Calls = calls\n\treturn res\n}\n", name, hist.String())
	src := strings.Replace(sb.String(), "\t\"fmt\"\n", "\t\"fmt\"\n\t\"math\"\n", 1)
	src = strings.ReplaceAll(src, "SALT", fmt.Sprint(t.Intn(2)))
	sig := "func(" + strings.Join(func() []string {
		o := make([]string, np)
		for i, p := range ps {
			o[i] = p.Go
		}
		return o
	}(), ", ") + ")" + resSig
	return &Shape{Name: name, Kind: "mem", Source: src, Decoded: map[string]any{"kind": "mem", "signature": sig, "histories": decoded}}
}
