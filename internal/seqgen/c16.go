// Package seqgen generates the harness packages of seqsim (C16, C18): for
// each seeded shape one Go package that contains the derive call, harness-owned
// stage functions (stubs that log their arguments and fail on command), a
// reference implementation written from the statement of the property, and a
// Run function that enumerates the injection points and compares the two.
package seqgen

import (
	"fmt"
	"strings"

	"verif/tape"
)

// sty is a type of the shape grammar with a constructor of non-zero values.
type sty struct {
	Go string
	Mk func(seed int) string
}

var pool = []sty{
	{"int", func(s int) string { return fmt.Sprintf("%d", s) }},
	{"string", func(s int) string { return fmt.Sprintf("\"s%d\"", s) }},
	{"MyInt", func(s int) string { return fmt.Sprintf("MyInt(%d)", s) }},
	{"S", func(s int) string { return fmt.Sprintf("S{A: %d, B: \"b%d\"}", s, s) }},
	{"[2]int", func(s int) string { return fmt.Sprintf("[2]int{%d, %d}", s, s+1) }},
	{"*S", func(s int) string { return fmt.Sprintf("&S{A: %d}", s) }},
	{"[]int", func(s int) string { return fmt.Sprintf("[]int{%d}", s) }},
	{"map[string]int", func(s int) string { return fmt.Sprintf("map[string]int{\"k\": %d}", s) }},
	{"interface{}", func(s int) string { return fmt.Sprintf("interface{}(%d)", s) }},
	{"float64", func(s int) string { return fmt.Sprintf("%d.5", s) }},
	{"bool", func(s int) string { return "true" }},
	{"MyStr", func(s int) string { return fmt.Sprintf("MyStr(\"m%d\")", s) }},
	{"[1]S", func(s int) string { return fmt.Sprintf("[1]S{{A: %d}}", s) }},
	{"struct{ X int }", func(s int) string { return fmt.Sprintf("struct{ X int }{%d}", s) }},
}

func drawTys(t *tape.Tape, n int) []sty {
	out := make([]sty, n)
	for i := range out {
		out[i] = pool[t.Intn(len(pool))]
	}
	return out
}

// Shape is one generated harness package.
type Shape struct {
	Name    string // package name / directory
	Kind    string // compose | fmap-value | fmap-func | fmap-void | fmap-tuple | join | traverse | toerror
	Source  string // shape.go
	Decoded map[string]any
}

const header = `package %s

import (
	"encoding/json"
	"errors"
	"fmt"
	"reflect"

	"verif/seqrt"
)

var _ = reflect.DeepEqual
var _ = json.Marshal
var _ = fmt.Sprint

type MyInt int
type MyStr string
type S struct {
	A int
	B string
}

type customErr struct{ code int }

func (e *customErr) Error() string { return fmt.Sprint("custom", e.code) }

var errA error = errors.New("errA")
var errB error = &customErr{7}

var log []string
var failAt = -1
var failErr error
var calls, faults int

func logCall(stage int, args ...any) {
	b, _ := json.Marshal(args)
	log = append(log, fmt.Sprintf("%%d:%%s", stage, b))
	calls++
}

func problem(res *seqrt.Result, clause, fault, detail string) {
	res.Problems = append(res.Problems, seqrt.Problem{Shape: res.Shape, Clause: clause, Fault: fault, Detail: detail})
}

func same(a, b []any) bool { return reflect.DeepEqual(a, b) }
`

func tyList(ts []sty) string {
	ss := make([]string, len(ts))
	for i, t := range ts {
		ss[i] = t.Go
	}
	return strings.Join(ss, ", ")
}

func results(ts []sty) string {
	// result list with a trailing error
	if len(ts) == 0 {
		return "error"
	}
	return "(" + tyList(ts) + ", error)"
}

func vars(prefix string, n int) []string {
	out := make([]string, n)
	for i := range out {
		out[i] = fmt.Sprintf("%s%d", prefix, i)
	}
	return out
}

func params(prefix string, ts []sty) string {
	ss := make([]string, len(ts))
	for i, t := range ts {
		ss[i] = fmt.Sprintf("%s%d %s", prefix, i, t.Go)
	}
	return strings.Join(ss, ", ")
}

func mkVals(ts []sty, seed int) string {
	ss := make([]string, len(ts))
	for i, t := range ts {
		ss[i] = t.Mk(seed + i)
	}
	return strings.Join(ss, ", ")
}

func anyList(vs []string) string { return "[]any{" + strings.Join(vs, ", ") + "}" }

// zeroDecl declares zero values z0.. of the given types.
func zeroDecl(ts []sty) string {
	var sb strings.Builder
	for i, t := range ts {
		fmt.Fprintf(&sb, "\tvar z%d %s\n", i, t.Go)
	}
	return sb.String()
}

func withErr(vs []string, e string) string {
	return strings.Join(append(append([]string{}, vs...), e), ", ")
}

// Compose: 2-4 stages.
func genCompose(name string, t *tape.Tape) *Shape {
	n := 2 + t.Intn(3)
	// types flowing: io[0] = parameters of stage 0, io[i+1] = values returned by stage i
	io := make([][]sty, n+1)
	io[0] = drawTys(t, t.Intn(3))
	for i := 1; i <= n; i++ {
		k := 1 + t.Intn(3)
		if i == n {
			k = t.Intn(4)
		}
		io[i] = drawTys(t, k)
	}
	var sb strings.Builder
	fmt.Fprintf(&sb, header, name)
	stages := vars("stage", n)
	for i := 0; i < n; i++ {
		in, out := io[i], io[i+1]
		fmt.Fprintf(&sb, "\nfunc stage%d(%s) %s {\n\tlogCall(%d%s)\n", i, params("a", in), results(out), i, prefixComma(vars("a", len(in))))
		// a failing stage returns non-zero partial results with its error
		fmt.Fprintf(&sb, "\tif failAt == %d {\n\t\tfaults++\n\t\treturn %s\n\t}\n", i, withErrVals(mkVals(out, 90+i), "failErr"))
		fmt.Fprintf(&sb, "\treturn %s\n}\n", withErrVals(mkVals(out, 10*(i+1)), "nil"))
	}
	first, last := io[0], io[n]
	fmt.Fprintf(&sb, "\nfunc Derived(%s) %s {\n\treturn deriveCompose(%s)(%s)\n}\n", params("p", first), results(last), strings.Join(stages, ", "), strings.Join(vars("p", len(first)), ", "))
	// reference: hand-written sequential composition with zero values on failure
	fmt.Fprintf(&sb, "\nfunc Reference(%s) %s {\n%s", params("p", first), results(last), zeroDecl(last))
	cur := vars("p", len(first))
	for i := 0; i < n; i++ {
		outv := vars(fmt.Sprintf("v%d_", i), len(io[i+1]))
		fmt.Fprintf(&sb, "\t%s := stage%d(%s)\n\tif err%d != nil {\n\t\treturn %s\n\t}\n", withErr(outv, fmt.Sprintf("err%d", i)), i, strings.Join(cur, ", "), i, withErr(vars("z", len(last)), fmt.Sprintf("err%d", i)))
		cur = outv
	}
	fmt.Fprintf(&sb, "\treturn %s\n}\n", withErr(cur, "nil"))
	// Run
	rv := vars("r", len(last))
	fmt.Fprintf(&sb, `
func Run() *seqrt.Result {
	res := &seqrt.Result{Shape: %q}
	for fa := -1; fa < %d; fa++ {
		for ei, e := range []error{errA, errB} {
			if fa == -1 && ei > 0 {
				continue
			}
			fault := fmt.Sprintf("stage %%d fails with error #%%d", fa, ei)
			failAt, failErr = fa, e
			log = nil
			%s := Derived(%s)
			dLog := log
			log = nil
			%s := Reference(%s)
			rLog := log
			res.Cases++
			if derr != rerr {
				problem(res, "wrong-error", fault, fmt.Sprintf("derived returns error %%v, the sequential composition %%v", derr, rerr))
			}
			if !same(%s, %s) {
				problem(res, "wrong-results", fault, fmt.Sprintf("derived returns %%v, the sequential composition %%v", %s, %s))
			}
			if !reflect.DeepEqual(dLog, rLog) {
				problem(res, "wrong-calls", fault, fmt.Sprintf("derived called %%v, the sequential composition %%v", dLog, rLog))
			}
			res.Sample = fmt.Sprintf("%%s: calls %%v", fault, dLog)
		}
	}
	res.Calls, res.Faults = calls, faults
	return res
}
`, name, n, withErr(prefixed("d", rv), "derr"), mkVals(first, 1), withErr(prefixed("x", rv), "rerr"), mkVals(first, 1),
		anyList(prefixed("d", rv)), anyList(prefixed("x", rv)), anyList(prefixed("d", rv)), anyList(prefixed("x", rv)))
	return &Shape{Name: name, Kind: "compose", Source: sb.String(), Decoded: map[string]any{"kind": "compose", "stages": n, "types": ioStr(io)}}
}

func prefixed(p string, vs []string) []string {
	out := make([]string, len(vs))
	for i, v := range vs {
		out[i] = p + v
	}
	return out
}

func prefixComma(vs []string) string {
	if len(vs) == 0 {
		return ""
	}
	return ", " + strings.Join(vs, ", ")
}

func withErrVals(vals, e string) string {
	if vals == "" {
		return e
	}
	return vals + ", " + e
}

func ioStr(io [][]sty) []string {
	out := make([]string, len(io))
	for i, ts := range io {
		out[i] = "(" + tyList(ts) + ")"
	}
	return out
}

// Traverse: f func(A) (B, error) over []A, every length 0..5 x failure at every index.
func genTraverse(name string, t *tape.Tape) *Shape {
	a, b := pool[t.Intn(len(pool))], pool[t.Intn(len(pool))]
	var sb strings.Builder
	fmt.Fprintf(&sb, header, name)
	fmt.Fprintf(&sb, `
var idx int

func stage(a %s) (%s, error) {
	logCall(idx, a)
	i := idx
	idx++
	if failAt == i {
		faults++
		return %s, failErr
	}
	return mkB(i), nil
}

func mkA(i int) %s { return []%s{%s, %s, %s, %s, %s, %s}[i] }
func mkB(i int) %s { return []%s{%s, %s, %s, %s, %s, %s}[i] }

func Derived(l []%s) ([]%s, error) { return deriveTraverse(stage, l) }

func Reference(l []%s) ([]%s, error) {
	out := make([]%s, 0, len(l))
	for _, a := range l {
		b, err := stage(a)
		if err != nil {
			return nil, err
		}
		out = append(out, b)
	}
	return out, nil
}

func Run() *seqrt.Result {
	res := &seqrt.Result{Shape: %q}
	for n := 0; n <= 5; n++ {
		for fa := -1; fa < n; fa++ {
			for ei, e := range []error{errA, errB} {
				if fa == -1 && ei > 0 {
					continue
				}
				fault := fmt.Sprintf("list of %%d, element %%d fails with error #%%d", n, fa, ei)
				var l []%s
				if n > 0 || ei == 1 {
					l = []%s{}
				}
				for i := 0; i < n; i++ {
					l = append(l, mkA(i))
				}
				failAt, failErr = fa, e
				log, idx = nil, 0
				d, derr := Derived(l)
				dLog := log
				log, idx = nil, 0
				x, rerr := Reference(l)
				rLog := log
				res.Cases++
				if derr != rerr {
					problem(res, "wrong-error", fault, fmt.Sprintf("derived returns error %%v, the loop %%v", derr, rerr))
				}
				if rerr != nil && d != nil {
					problem(res, "non-nil-slice-on-failure", fault, fmt.Sprintf("derived returns %%v with the error", d))
				}
				if rerr == nil && (len(d) != len(x) || (len(x) > 0 && !reflect.DeepEqual(d, x))) {
					problem(res, "wrong-results", fault, fmt.Sprintf("derived returns %%v, the loop %%v", d, x))
				}
				if !reflect.DeepEqual(dLog, rLog) {
					problem(res, "wrong-calls", fault, fmt.Sprintf("derived called %%v, the loop %%v", dLog, rLog))
				}
				res.Sample = fmt.Sprintf("%%s: calls %%v", fault, dLog)
			}
		}
	}
	res.Calls, res.Faults = calls, faults
	return res
}
`, a.Go, b.Go, b.Mk(95), a.Go, a.Go, a.Mk(1), a.Mk(2), a.Mk(3), a.Mk(4), a.Mk(5), a.Mk(6), b.Go, b.Go, b.Mk(11), b.Mk(12), b.Mk(13), b.Mk(14), b.Mk(15), b.Mk(16),
		a.Go, b.Go, a.Go, b.Go, b.Go, name, a.Go, a.Go)
	return &Shape{Name: name, Kind: "traverse", Source: sb.String(), Decoded: map[string]any{"kind": "traverse", "elem": a.Go, "result": b.Go}}
}

// ToError: (err, f func(A...) (B..., bool)) -> func(A...) (B..., error)
func genToError(name string, t *tape.Tape) *Shape {
	ps := drawTys(t, t.Intn(3))
	rs := drawTys(t, t.Intn(3))
	var sb strings.Builder
	fmt.Fprintf(&sb, header, name)
	boolRes := "bool"
	if len(rs) > 0 {
		boolRes = "(" + tyList(rs) + ", bool)"
	}
	namedResults := t.Chance(1, 3)
	if namedResults {
		// f with named results (value T, ok bool): names are not part of the type, the generated function must not depend on them
		parts := make([]string, len(rs))
		for i, r := range rs {
			parts[i] = fmt.Sprintf("value%d %s", i, r.Go)
		}
		boolRes = "(" + strings.Join(append(parts, "ok bool"), ", ") + ")"
	}
	// the parameters of f keep their names in the function ToError returns: one in three shapes gives one of
	// them a name the generated body uses itself (err is the supplied error there, f the function, success / out0 locals)
	anames := vars("a", len(ps))
	if len(ps) > 0 && t.Chance(1, 3) {
		anames[t.Intn(len(ps))] = []string{"err", "success", "out0", "f"}[t.Intn(4)]
	}
	aparams := make([]string, len(ps))
	for i, ty := range ps {
		aparams[i] = anames[i] + " " + ty.Go
	}
	fmt.Fprintf(&sb, "\nfunc stage(%s) %s {\n\tlogCall(0%s)\n\tif failAt == 0 {\n\t\tfaults++\n\t\treturn %s\n\t}\n\treturn %s\n}\n",
		strings.Join(aparams, ", "), boolRes, prefixComma(anames), withErrVals(mkVals(rs, 90), "false"), withErrVals(mkVals(rs, 10), "true"))
	fmt.Fprintf(&sb, "\nfunc Derived(e error%s) %s {\n\treturn deriveToError(e, stage)(%s)\n}\n", paramsAfter("p", ps), results(rs), strings.Join(vars("p", len(ps)), ", "))
	outv := vars("v", len(rs))
	fmt.Fprintf(&sb, "\nfunc Reference(e error%s) %s {\n\t%s := stage(%s)\n\tif ok {\n\t\treturn %s\n\t}\n\treturn %s\n}\n",
		paramsAfter("p", ps), results(rs), withErr(outv, "ok"), strings.Join(vars("p", len(ps)), ", "), withErr(outv, "nil"), withErr(outv, "e"))
	rv := vars("r", len(rs))
	args := mkVals(ps, 1)
	fmt.Fprintf(&sb, `
func Run() *seqrt.Result {
	res := &seqrt.Result{Shape: %q}
	for fa := -1; fa < 1; fa++ {
		for ei, e := range []error{errA, errB} {
			fault := fmt.Sprintf("f reports %%v, supplied error #%%d", fa == -1, ei)
			failAt = fa
			log = nil
			%s := Derived(e%s)
			dLog := log
			log = nil
			%s := Reference(e%s)
			rLog := log
			res.Cases++
			if derr != rerr {
				problem(res, "wrong-error", fault, fmt.Sprintf("derived returns error %%v, expected %%v", derr, rerr))
			}
			if !same(%s, %s) {
				problem(res, "wrong-results", fault, fmt.Sprintf("derived returns %%v, expected %%v", %s, %s))
			}
			if !reflect.DeepEqual(dLog, rLog) {
				problem(res, "wrong-calls", fault, fmt.Sprintf("derived called %%v, expected %%v", dLog, rLog))
			}
			res.Sample = fmt.Sprintf("%%s: calls %%v", fault, dLog)
		}
	}
	// one derived function value used for a sequence of calls: what an earlier call reported must not matter
	for ei, e := range []error{errA, errB} {
		fn := deriveToError(e, stage)
		for step, fa := range []int{-1, 0, -1, 0, 0, -1} {
			fault := fmt.Sprintf("call %%d of one derived function: f reports %%v, supplied error #%%d", step, fa == -1, ei)
			failAt = fa
			log = nil
			%s := fn(%s)
			%s := Reference(e%s)
			res.Cases++
			if derr != rerr {
				problem(res, "wrong-error", fault, fmt.Sprintf("derived returns error %%v, expected %%v", derr, rerr))
			}
			if !same(%s, %s) {
				problem(res, "wrong-results", fault, fmt.Sprintf("derived returns %%v, expected %%v", %s, %s))
			}
		}
	}
	res.Calls, res.Faults = calls, faults
	return res
}
`, name, withErr(prefixed("d", rv), "derr"), prefixComma(splitArgs(args)), withErr(prefixed("x", rv), "rerr"), prefixComma(splitArgs(args)),
		anyList(prefixed("d", rv)), anyList(prefixed("x", rv)), anyList(prefixed("d", rv)), anyList(prefixed("x", rv)),
		withErr(prefixed("d", rv), "derr"), strings.Join(splitArgs(args), ", "), withErr(prefixed("x", rv), "rerr"), prefixComma(splitArgs(args)),
		anyList(prefixed("d", rv)), anyList(prefixed("x", rv)), anyList(prefixed("d", rv)), anyList(prefixed("x", rv)))
	return &Shape{Name: name, Kind: "toerror", Source: sb.String(), Decoded: map[string]any{"kind": "toerror", "params": tyList(ps), "param_names": strings.Join(anames, ","), "named_results": namedResults, "results": tyList(rs)}}
}

// paramsAfter renders parameters that follow an earlier one.
func paramsAfter(prefix string, ts []sty) string {
	if len(ts) == 0 {
		return ""
	}
	return ", " + params(prefix, ts)
}

func splitArgs(s string) []string {
	if s == "" {
		return nil
	}
	return []string{s}
}

// Fmap error forms and Join error form: a producer g func() (A, error) and a mapping f.
func genFmapJoin(name string, t *tape.Tape) *Shape {
	a := pool[t.Intn(len(pool))]
	bs := drawTys(t, 1+t.Intn(2))
	form := t.Intn(5)
	var sb strings.Builder
	fmt.Fprintf(&sb, header, name)
	fmt.Fprintf(&sb, "\nfunc g() (%s, error) {\n\tlogCall(0)\n\tif failAt == 0 {\n\t\tfaults++\n\t\treturn %s, failErr\n\t}\n\treturn %s, nil\n}\n", a.Go, a.Mk(90), a.Mk(10))
	kind := ""
	nStages := 2
	switch form {
	case 0: // f func(A) B ; g -> (B, error)
		kind = "fmap-value"
		b := bs[0]
		fmt.Fprintf(&sb, "\nfunc f(a %s) %s {\n\tlogCall(1, a)\n\treturn %s\n}\n", a.Go, b.Go, b.Mk(20))
		fmt.Fprintf(&sb, "\nfunc Derived() ([]any, error) {\n\tv, err := deriveFmap(f, g)\n\treturn []any{v}, err\n}\n")
		fmt.Fprintf(&sb, "\nfunc Reference() ([]any, error) {\n\tvar z %s\n\ta, err := g()\n\tif err != nil {\n\t\treturn []any{z}, err\n\t}\n\treturn []any{f(a)}, nil\n}\n", b.Go)
	case 1: // f func(A) ; g -> error
		kind = "fmap-void"
		fmt.Fprintf(&sb, "\nfunc f(a %s) {\n\tlogCall(1, a)\n}\n", a.Go)
		fmt.Fprintf(&sb, "\nfunc Derived() ([]any, error) {\n\terr := deriveFmap(f, g)\n\treturn nil, err\n}\n")
		fmt.Fprintf(&sb, "\nfunc Reference() ([]any, error) {\n\ta, err := g()\n\tif err != nil {\n\t\treturn nil, err\n\t}\n\tf(a)\n\treturn nil, nil\n}\n")
	case 2: // f func(A) (B, error) ; g -> (func() (B, error), error), joined
		kind = "fmap-func-join"
		nStages = 2
		b := bs[0]
		fmt.Fprintf(&sb, "\nfunc f(a %s) (%s, error) {\n\tlogCall(1, a)\n\tif failAt == 1 {\n\t\tfaults++\n\t\treturn %s, failErr\n\t}\n\treturn %s, nil\n}\n", a.Go, b.Go, b.Mk(91), b.Mk(20))
		fmt.Fprintf(&sb, "\nfunc Derived() ([]any, error) {\n\tv, err := deriveJoin(deriveFmap(f, g))\n\treturn []any{v}, err\n}\n")
		fmt.Fprintf(&sb, "\nfunc Reference() ([]any, error) {\n\tvar z %s\n\ta, err := g()\n\tif err != nil {\n\t\treturn []any{z}, err\n\t}\n\tb, err := f(a)\n\tif err != nil {\n\t\treturn []any{z}, err\n\t}\n\treturn []any{b}, nil\n}\n", b.Go)
	case 3: // f func(A) (B, C) ; g -> (func() (B, C), error): evaluated once when Fmap runs
		kind = "fmap-tuple"
		if len(bs) < 2 {
			bs = append(bs, pool[t.Intn(len(pool))])
		}
		fmt.Fprintf(&sb, "\nfunc f(a %s) (%s) {\n\tlogCall(1, a)\n\treturn %s\n}\n", a.Go, tyList(bs), mkVals(bs, 20))
		fmt.Fprintf(&sb, "\nfunc Derived() ([]any, error) {\n\ttup, err := deriveFmap(f, g)\n\tlogCall(2)\n\tif err != nil {\n\t\treturn []any{tup == nil}, err\n\t}\n\tb0, b1 := tup()\n\tc0, c1 := tup()\n\treturn []any{b0, b1, c0, c1}, nil\n}\n")
		fmt.Fprintf(&sb, "\nfunc Reference() ([]any, error) {\n\ta, err := g()\n\tif err != nil {\n\t\tlogCall(2)\n\t\treturn []any{true}, err\n\t}\n\tb0, b1 := f(a)\n\tlogCall(2)\n\treturn []any{b0, b1, b0, b1}, nil\n}\n")
	case 4: // Join error form alone: deriveJoin(f func() (T..., error), err error)
		kind = "join-error"
		fmt.Fprintf(&sb, "\nfunc h() (%s, error) {\n\tlogCall(1)\n\tif failAt == 1 {\n\t\tfaults++\n\t\treturn %s, failErr\n\t}\n\treturn %s, nil\n}\n", tyList(bs), mkVals(bs, 91), mkVals(bs, 20))
		rv := vars("r", len(bs))
		fmt.Fprintf(&sb, "\nfunc Derived() ([]any, error) {\n\tvar outer error\n\tif failAt == 0 {\n\t\tfaults++\n\t\touter = failErr\n\t}\n\t%s := deriveJoin(h, outer)\n\treturn %s, err\n}\n", withErr(rv, "err"), anyList(rv))
		fmt.Fprintf(&sb, "\nfunc Reference() ([]any, error) {\n%s\tif failAt == 0 {\n\t\treturn %s, failErr\n\t}\n\t%s := h()\n\tif err != nil {\n\t\treturn %s, err\n\t}\n\treturn %s, nil\n}\n",
			zeroDecl(bs), anyList(vars("z", len(bs))), withErr(rv, "err"), anyList(vars("z", len(bs))), anyList(rv))
		// the stub g is unused in this form
		fmt.Fprintf(&sb, "\nvar _ = g\n")
	}
	fmt.Fprintf(&sb, `
func Run() *seqrt.Result {
	res := &seqrt.Result{Shape: %q}
	for fa := -1; fa < %d; fa++ {
		for ei, e := range []error{errA, errB} {
			if fa == -1 && ei > 0 {
				continue
			}
			fault := fmt.Sprintf("stage %%d fails with error #%%d", fa, ei)
			failAt, failErr = fa, e
			log = nil
			d, derr := Derived()
			dLog := log
			log = nil
			x, rerr := Reference()
			rLog := log
			res.Cases++
			if derr != rerr {
				problem(res, "wrong-error", fault, fmt.Sprintf("derived returns error %%v, the sequential composition %%v", derr, rerr))
			}
			if !same(d, x) {
				problem(res, "wrong-results", fault, fmt.Sprintf("derived returns %%v, the sequential composition %%v", d, x))
			}
			if !reflect.DeepEqual(dLog, rLog) {
				problem(res, "wrong-calls", fault, fmt.Sprintf("derived called %%v, the sequential composition %%v", dLog, rLog))
			}
			res.Sample = fmt.Sprintf("%%s: calls %%v", fault, dLog)
		}
	}
	res.Calls, res.Faults = calls, faults
	return res
}
`, name, nStages)
	return &Shape{Name: name, Kind: kind, Source: sb.String(), Decoded: map[string]any{"kind": kind, "in": a.Go, "out": tyList(bs)}}
}

// GenC16 draws one C16 shape.
func GenC16(name string, t *tape.Tape) *Shape {
	switch t.Intn(6) {
	case 0, 1, 2:
		return genCompose(name, t)
	case 3:
		return genFmapJoin(name, t)
	case 4:
		return genTraverse(name, t)
	}
	return genToError(name, t)
}
