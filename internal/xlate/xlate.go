// Package xlate rewrites Go source that uses goroutines, channels, select and
// package sync into source that uses verif/chansim instead, so that the
// simulator's scheduler decides every interleaving. The rewrite is driven by
// go/types (not by text) and covers all channel / select / go / sync forms,
// not only the ones today's goderive templates emit. Anything it does not
// know how to translate faithfully is an error naming file:line (the check
// then exits 2) - never a silent pass-through.
package xlate

import (
	"bytes"
	"fmt"
	"go/ast"
	"go/format"
	"go/importer"
	"go/parser"
	"go/token"
	"go/types"
	"os"
	"path/filepath"
	"sort"
	"strconv"
	"strings"

	"golang.org/x/tools/go/ast/astutil"
)

const (
	chansimPath   = "verif/chansim"
	simsyncPath   = "verif/chansim/simsync"
	simatomicPath = "verif/chansim/simatomic"
)

// Report says what the translator did (goes into evidence).
type Report struct {
	Files        []string
	Chans        int // chan type expressions rewritten
	Sends, Recvs int
	Selects      int
	Gos          int
	Ranges       int
	Closes       int
	SharedVars   []string // variables instrumented for race detection
	Untracked    []string // accesses that could not be instrumented exactly
	MapRanges    []string // range-over-map sites left in native order
}

type xl struct {
	fset   *token.FileSet
	info   *types.Info
	pkg    *types.Package
	rep    *Report
	shared map[*types.Var]bool
	errs   []string

	rangeChan map[*ast.RangeStmt]bool
	builtin   map[*ast.CallExpr]string // "close","len","cap","make" on channels
	selComm   map[ast.Node]bool        // comm ops that belong to a select clause
	recv2     map[*ast.UnaryExpr]bool  // receive in comma-ok position
	noInstr   map[*ast.Ident]bool      // identifiers that must not be wrapped in R()
	tmp       int
	usesSim   bool
}

func (x *xl) errorf(pos token.Pos, f string, a ...any) {
	x.errs = append(x.errs, fmt.Sprintf("%s: %s", x.fset.Position(pos), fmt.Sprintf(f, a...)))
}

func (x *xl) site(pos token.Pos) string {
	p := x.fset.Position(pos)
	return filepath.Base(p.Filename) + ":" + strconv.Itoa(p.Line)
}

func isChan(t types.Type) bool {
	if t == nil {
		return false
	}
	_, ok := t.Underlying().(*types.Chan)
	return ok
}

func sim(name string) ast.Expr {
	return &ast.SelectorExpr{X: ast.NewIdent("chansim"), Sel: ast.NewIdent(name)}
}

func call(fun ast.Expr, args ...ast.Expr) *ast.CallExpr { return &ast.CallExpr{Fun: fun, Args: args} }

func lit(s string) ast.Expr { return &ast.BasicLit{Kind: token.STRING, Value: strconv.Quote(s)} }

// TranslateDir translates every non-test .go file of srcDir into dstDir.
// TranslateDir translates srcDir into dstDir. A non-empty langVersion (e.g.
// "go1.21") is written as a //go:build line, which sets the language version
// of the translated files (loop variables shared across iterations before
// go1.22).
func TranslateDir(srcDir, dstDir string, race bool, langVersion string) (*Report, error) {
	fset := token.NewFileSet()
	ents, err := os.ReadDir(srcDir)
	if err != nil {
		return nil, err
	}
	var files []*ast.File
	var names []string
	for _, e := range ents {
		n := e.Name()
		if e.IsDir() || !strings.HasSuffix(n, ".go") || strings.HasSuffix(n, "_test.go") {
			continue
		}
		f, err := parser.ParseFile(fset, filepath.Join(srcDir, n), nil, parser.ParseComments)
		if err != nil {
			return nil, fmt.Errorf("parse: %v", err)
		}
		files = append(files, f)
		names = append(names, n)
	}
	if len(files) == 0 {
		return nil, fmt.Errorf("no Go files in %s", srcDir)
	}
	info := &types.Info{
		Types:      map[ast.Expr]types.TypeAndValue{},
		Defs:       map[*ast.Ident]types.Object{},
		Uses:       map[*ast.Ident]types.Object{},
		Selections: map[*ast.SelectorExpr]*types.Selection{},
	}
	conf := types.Config{Importer: importer.ForCompiler(fset, "source", nil)}
	pkg, err := conf.Check(files[0].Name.Name, fset, files, info)
	if err != nil {
		return nil, fmt.Errorf("typecheck: %v", err)
	}
	x := &xl{fset: fset, info: info, pkg: pkg, rep: &Report{Files: names},
		shared: map[*types.Var]bool{}, rangeChan: map[*ast.RangeStmt]bool{}, builtin: map[*ast.CallExpr]string{},
		selComm: map[ast.Node]bool{}, recv2: map[*ast.UnaryExpr]bool{}, noInstr: map[*ast.Ident]bool{}}
	for _, f := range files {
		x.prepass(f, race)
	}
	if err := os.MkdirAll(dstDir, 0o755); err != nil {
		return nil, err
	}
	for i, f := range files {
		x.usesSim = false
		x.rewrite(f)
		if len(x.errs) > 0 {
			break
		}
		if x.usesSim {
			astutil.AddImport(fset, f, chansimPath)
		}
		// runtime.Gosched / GOMAXPROCS / NumCPU have been redirected: drop the import when nothing else uses it
		usesRuntime := false
		ast.Inspect(f, func(n ast.Node) bool {
			if sel, ok := n.(*ast.SelectorExpr); ok {
				if id, ok := sel.X.(*ast.Ident); ok && id.Name == "runtime" && id.Obj == nil {
					usesRuntime = true
				}
			}
			return true
		})
		if !usesRuntime {
			astutil.DeleteImport(fset, f, "runtime")
		}
		var buf bytes.Buffer
		f.Comments = nil // synthesised nodes have no positions; comments would be displaced
		f.Doc = nil
		for _, d := range f.Decls {
			switch d := d.(type) {
			case *ast.FuncDecl:
				d.Doc = nil
			case *ast.GenDecl:
				d.Doc = nil
			}
		}
		if err := format.Node(&buf, fset, f); err != nil {
			return nil, fmt.Errorf("print %s: %v", names[i], err)
		}
		// reformat from text: positions of synthesised nodes are zero and
		// comments may have been displaced; the text is what is compiled.
		out, err := format.Source(buf.Bytes())
		if err != nil {
			return nil, fmt.Errorf("translated %s does not parse: %v\n%s", names[i], err, buf.String())
		}
		if langVersion != "" {
			out = append([]byte("//go:build "+langVersion+"\n\n"), out...)
		}
		if err := os.WriteFile(filepath.Join(dstDir, names[i]), out, 0o644); err != nil {
			return nil, err
		}
	}
	if len(x.errs) > 0 {
		return nil, fmt.Errorf("untranslatable construct(s):\n  %s", strings.Join(x.errs, "\n  "))
	}
	sort.Strings(x.rep.SharedVars)
	return x.rep, nil
}

var refusedImports = map[string]string{
	"time":      "timers and sleeps are not simulated",
	"context":   "context cancellation is not simulated",
	"reflect":   "reflect.Select / reflect channel operations cannot be intercepted",
	"unsafe":    "unsafe",
	"os/signal": "signals",
}

// prepass records every decision that needs type information, keyed by the
// original nodes, before anything is rewritten.
func (x *xl) prepass(f *ast.File, race bool) {
	for _, im := range f.Imports {
		p, _ := strconv.Unquote(im.Path.Value)
		if why, bad := refusedImports[p]; bad {
			x.errorf(im.Pos(), "import %q: %s", p, why)
		}
		if strings.Contains(p, "errgroup") || strings.Contains(p, "semaphore") || strings.Contains(p, "singleflight") {
			x.errorf(im.Pos(), "import %q: concurrency helper is not simulated", p)
		}
	}
	// shared variables: locals captured by a function literal, and
	// package-level variables.
	if race {
		var lits []*ast.FuncLit
		ast.Inspect(f, func(n ast.Node) bool {
			if fl, ok := n.(*ast.FuncLit); ok {
				lits = append(lits, fl)
			}
			return true
		})
		for _, fl := range lits {
			ast.Inspect(fl.Body, func(n ast.Node) bool {
				id, ok := n.(*ast.Ident)
				if !ok {
					return true
				}
				v, ok := x.info.Uses[id].(*types.Var)
				if !ok || v.IsField() || v.Pkg() != x.pkg {
					return true
				}
				if v.Parent() == x.pkg.Scope() {
					x.markShared(v)
					return true
				}
				if v.Pos() < fl.Pos() || v.Pos() > fl.End() {
					x.markShared(v)
				}
				return true
			})
		}
	}
	ast.Inspect(f, func(n ast.Node) bool {
		switch n := n.(type) {
		case *ast.RangeStmt:
			t := x.info.TypeOf(n.X)
			if isChan(t) {
				x.rangeChan[n] = true
			} else if t != nil {
				if _, ok := t.Underlying().(*types.Map); ok {
					x.rep.MapRanges = append(x.rep.MapRanges, x.site(n.Pos()))
				}
			}
		case *ast.CallExpr:
			if id, ok := n.Fun.(*ast.Ident); ok {
				if _, isB := x.info.Uses[id].(*types.Builtin); isB {
					switch id.Name {
					case "close":
						x.builtin[n] = "close"
					case "len", "cap":
						if len(n.Args) == 1 && isChan(x.info.TypeOf(n.Args[0])) {
							x.builtin[n] = id.Name
						}
					case "make":
						if len(n.Args) >= 1 && isChan(x.info.TypeOf(n.Args[0])) {
							x.builtin[n] = "make"
						}
					}
				}
			}
			if sel, ok := n.Fun.(*ast.SelectorExpr); ok {
				if pk, ok := sel.X.(*ast.Ident); ok {
					if pn, ok := x.info.Uses[pk].(*types.PkgName); ok && pn.Imported().Path() == "runtime" {
						if sel.Sel.Name != "Gosched" && sel.Sel.Name != "GOMAXPROCS" && sel.Sel.Name != "NumCPU" {
							x.errorf(n.Pos(), "runtime.%s is not simulated", sel.Sel.Name)
						}
					}
				}
			}
		case *ast.SelectStmt:
			for _, cc := range n.Body.List {
				c := cc.(*ast.CommClause)
				switch s := c.Comm.(type) {
				case nil:
				case *ast.SendStmt:
					x.selComm[s] = true
				case *ast.ExprStmt:
					if u, ok := unparen(s.X).(*ast.UnaryExpr); ok && u.Op == token.ARROW {
						x.selComm[u] = true
					} else {
						x.errorf(s.Pos(), "unknown select communication form")
					}
				case *ast.AssignStmt:
					if len(s.Rhs) == 1 {
						if u, ok := unparen(s.Rhs[0]).(*ast.UnaryExpr); ok && u.Op == token.ARROW {
							x.selComm[u] = true
							break
						}
					}
					x.errorf(s.Pos(), "unknown select communication form")
				default:
					x.errorf(c.Pos(), "unknown select communication form")
				}
			}
		case *ast.LabeledStmt:
			if _, ok := n.Stmt.(*ast.SelectStmt); ok {
				x.errorf(n.Pos(), "labelled select is not supported by the translator")
			}
		case *ast.AssignStmt:
			if len(n.Lhs) == 2 && len(n.Rhs) == 1 {
				if u, ok := unparen(n.Rhs[0]).(*ast.UnaryExpr); ok && u.Op == token.ARROW {
					x.recv2[u] = true
				}
			}
			for _, l := range n.Lhs {
				if id, ok := l.(*ast.Ident); ok {
					x.noInstr[id] = true
				}
			}
		case *ast.ValueSpec:
			if len(n.Names) == 2 && len(n.Values) == 1 {
				if u, ok := unparen(n.Values[0]).(*ast.UnaryExpr); ok && u.Op == token.ARROW {
					x.recv2[u] = true
				}
			}
		case *ast.IncDecStmt:
			if id, ok := n.X.(*ast.Ident); ok {
				x.noInstr[id] = true
			}
		case *ast.UnaryExpr:
			if n.Op == token.AND {
				if id, ok := unparen(n.X).(*ast.Ident); ok {
					x.noInstr[id] = true
					if v, ok := x.info.Uses[id].(*types.Var); ok && x.shared[v] {
						x.rep.Untracked = append(x.rep.Untracked, fmt.Sprintf("%s: &%s (address taken; accesses through the pointer are not tracked)", x.site(n.Pos()), id.Name))
					}
				}
			}
		case *ast.SelectorExpr:
			if id, ok := n.X.(*ast.Ident); ok {
				if s := x.info.Selections[n]; s != nil && s.Kind() == types.MethodVal {
					x.noInstr[id] = true
				}
			}
		}
		return true
	})
	// range with assignment (not define) to shared variables
	ast.Inspect(f, func(n ast.Node) bool {
		if r, ok := n.(*ast.RangeStmt); ok && r.Tok == token.ASSIGN {
			for _, e := range []ast.Expr{r.Key, r.Value} {
				if id, ok := e.(*ast.Ident); ok {
					x.noInstr[id] = true
					if v, ok := x.info.Uses[id].(*types.Var); ok && x.shared[v] {
						x.rep.Untracked = append(x.rep.Untracked, fmt.Sprintf("%s: range assigns %s", x.site(r.Pos()), id.Name))
					}
				}
			}
		}
		return true
	})
}

func (x *xl) markShared(v *types.Var) {
	if x.shared[v] {
		return
	}
	// synchronisation objects are not data
	if strings.Contains(v.Type().String(), "sync.") {
		return
	}
	x.shared[v] = true
	x.rep.SharedVars = append(x.rep.SharedVars, fmt.Sprintf("%s@%s", v.Name(), x.site(v.Pos())))
}

func unparen(e ast.Expr) ast.Expr {
	for {
		p, ok := e.(*ast.ParenExpr)
		if !ok {
			return e
		}
		e = p.X
	}
}

func (x *xl) fresh(prefix string) string {
	x.tmp++
	return fmt.Sprintf("_%s%d", prefix, x.tmp)
}

func (x *xl) sharedVarOf(id *ast.Ident) *types.Var {
	if v, ok := x.info.Uses[id].(*types.Var); ok && x.shared[v] {
		return v
	}
	return nil
}

func (x *xl) wCall(id *ast.Ident, pos token.Pos) ast.Stmt {
	x.usesSim = true
	return &ast.ExprStmt{X: call(sim("W"), &ast.UnaryExpr{Op: token.AND, X: ast.NewIdent(id.Name)}, lit(id.Name), lit(x.site(pos)))}
}

func (x *xl) rewrite(f *ast.File) {
	astutil.Apply(f, nil, func(c *astutil.Cursor) bool {
		switch n := c.Node().(type) {
		case *ast.ImportSpec:
			if p, _ := strconv.Unquote(n.Path.Value); p == "sync/atomic" {
				n.Path = &ast.BasicLit{Kind: token.STRING, Value: strconv.Quote(simatomicPath)}
				if n.Name == nil {
					n.Name = ast.NewIdent("atomic")
				}
			} else if p == "sync" {
				n.Path = &ast.BasicLit{Kind: token.STRING, Value: strconv.Quote(simsyncPath)}
				if n.Name == nil {
					n.Name = ast.NewIdent("sync")
				}
			}
		case *ast.ChanType:
			x.usesSim = true
			x.rep.Chans++
			c.Replace(&ast.StarExpr{X: &ast.IndexExpr{X: sim("Chan"), Index: n.Value}})
		case *ast.SendStmt:
			if x.selComm[n] {
				return true
			}
			x.usesSim = true
			x.rep.Sends++
			c.Replace(&ast.ExprStmt{X: call(sim("Send"), n.Chan, n.Value)})
		case *ast.UnaryExpr:
			if n.Op != token.ARROW || x.selComm[n] {
				return true
			}
			x.usesSim = true
			x.rep.Recvs++
			if x.recv2[n] {
				c.Replace(call(sim("Recv2"), n.X))
			} else {
				c.Replace(call(sim("Recv"), n.X))
			}
		case *ast.CallExpr:
			switch x.builtin[n] {
			case "close":
				x.usesSim = true
				x.rep.Closes++
				n.Fun = sim("Close")
			case "len":
				x.usesSim = true
				n.Fun = sim("Len")
			case "cap":
				x.usesSim = true
				n.Fun = sim("Cap")
			case "make":
				st, ok := n.Args[0].(*ast.StarExpr)
				var ix *ast.IndexExpr
				if ok {
					ix, ok = st.X.(*ast.IndexExpr)
				}
				if !ok {
					x.errorf(n.Pos(), "make of a named channel type is not supported by the translator")
					return true
				}
				x.usesSim = true
				var size ast.Expr = &ast.BasicLit{Kind: token.INT, Value: "0"}
				if len(n.Args) > 1 {
					size = n.Args[1]
				}
				c.Replace(call(&ast.IndexExpr{X: sim("Make"), Index: ix.Index}, size))
			default:
				if sel, ok := n.Fun.(*ast.SelectorExpr); ok {
					if pk, ok := sel.X.(*ast.Ident); ok && pk.Name == "runtime" {
						switch sel.Sel.Name {
						case "Gosched":
							x.usesSim = true
							n.Fun = sim("Yield")
						case "GOMAXPROCS", "NumCPU":
							x.usesSim = true
							n.Fun = sim(sel.Sel.Name)
						}
					}
				}
			}
		case *ast.GoStmt:
			x.usesSim = true
			x.rep.Gos++
			if fl, ok := n.Call.Fun.(*ast.FuncLit); ok && len(n.Call.Args) == 0 && fl.Type.Results == nil {
				c.Replace(&ast.ExprStmt{X: call(sim("Go"), fl)})
				return true
			}
			// evaluate function value and arguments now, run the call later
			var lhs, rhs []ast.Expr
			fn := x.fresh("f")
			lhs = append(lhs, ast.NewIdent(fn))
			rhs = append(rhs, n.Call.Fun)
			var args []ast.Expr
			for _, a := range n.Call.Args {
				an := x.fresh("a")
				lhs = append(lhs, ast.NewIdent(an))
				rhs = append(rhs, a)
				args = append(args, ast.NewIdent(an))
			}
			inner := &ast.CallExpr{Fun: ast.NewIdent(fn), Args: args, Ellipsis: n.Call.Ellipsis}
			body := &ast.BlockStmt{List: []ast.Stmt{&ast.ExprStmt{X: inner}}}
			c.Replace(&ast.BlockStmt{List: []ast.Stmt{
				&ast.AssignStmt{Lhs: lhs, Tok: token.DEFINE, Rhs: rhs},
				&ast.ExprStmt{X: call(sim("Go"), &ast.FuncLit{Type: &ast.FuncType{Params: &ast.FieldList{}}, Body: body})},
			}})
		case *ast.RangeStmt:
			if !x.rangeChan[n] {
				return true
			}
			x.usesSim = true
			x.rep.Ranges++
			c.Replace(x.rangeOverChan(n, c))
		case *ast.SelectStmt:
			x.usesSim = true
			x.rep.Selects++
			c.Replace(x.selectStmt(n))
		case *ast.AssignStmt:
			var ws []ast.Stmt
			for _, l := range n.Lhs {
				if id, ok := l.(*ast.Ident); ok {
					if v := x.sharedVarOf(id); v != nil {
						ws = append(ws, x.wCall(id, n.Pos()))
					}
				}
			}
			x.insertAfter(c, ws, n.Pos())
		case *ast.IncDecStmt:
			if id, ok := n.X.(*ast.Ident); ok {
				if v := x.sharedVarOf(id); v != nil {
					x.insertAfter(c, []ast.Stmt{x.wCall(id, n.Pos())}, n.Pos())
				}
			}
		case *ast.Ident:
			if x.noInstr[n] {
				return true
			}
			v := x.sharedVarOf(n)
			if v == nil {
				return true
			}
			// only expression positions
			switch p := c.Parent().(type) {
			case *ast.SelectorExpr:
				if p.Sel == n {
					return true
				}
			case *ast.KeyValueExpr:
				if p.Key == n {
					if _, isStructKey := x.info.Uses[n].(*types.Var); isStructKey && v.IsField() {
						return true
					}
				}
			case *ast.Field, *ast.ValueSpec, *ast.LabeledStmt, *ast.BranchStmt:
				return true
			}
			x.usesSim = true
			c.Replace(&ast.ParenExpr{X: &ast.StarExpr{X: call(sim("R"), &ast.UnaryExpr{Op: token.AND, X: ast.NewIdent(n.Name)}, lit(n.Name), lit(x.site(n.Pos())))}})
		}
		return true
	})
}

func (x *xl) insertAfter(c *astutil.Cursor, ws []ast.Stmt, pos token.Pos) {
	if len(ws) == 0 {
		return
	}
	if _, isFor := c.Parent().(*ast.ForStmt); isFor && c.Name() == "Post" {
		// a post statement must stay one simple statement: func() { i++; W(&i) }()
		st := c.Node().(ast.Stmt)
		body := &ast.BlockStmt{List: append([]ast.Stmt{st}, ws...)}
		c.Replace(&ast.ExprStmt{X: &ast.CallExpr{Fun: &ast.FuncLit{Type: &ast.FuncType{Params: &ast.FieldList{}}, Body: body}}})
		return
	}
	if c.Index() < 0 && c.Name() == "Init" {
		// the init statement of an if / for / switch must stay one simple statement. An assignment
		// (not a definition: that would declare the variables inside the literal) or an inc/dec is
		// wrapped like a post statement: func() { a, err = f(); W(&a) }()
		wrappable := false
		switch st := c.Node().(type) {
		case *ast.AssignStmt:
			wrappable = st.Tok != token.DEFINE
		case *ast.IncDecStmt:
			wrappable = true
		}
		if wrappable {
			st := c.Node().(ast.Stmt)
			body := &ast.BlockStmt{List: append([]ast.Stmt{st}, ws...)}
			c.Replace(&ast.ExprStmt{X: &ast.CallExpr{Fun: &ast.FuncLit{Type: &ast.FuncType{Params: &ast.FieldList{}}, Body: body}}})
			return
		}
	}
	if c.Index() < 0 {
		x.rep.Untracked = append(x.rep.Untracked, fmt.Sprintf("%s: write in a statement header (if/for/switch init or post)", x.site(pos)))
		return
	}
	for i := len(ws) - 1; i >= 0; i-- {
		c.InsertAfter(ws[i])
	}
}

// rangeOverChan turns `for v := range c { B }` into a receive loop.
func (x *xl) rangeOverChan(n *ast.RangeStmt, c *astutil.Cursor) ast.Stmt {
	ok := ast.NewIdent(x.fresh("ok"))
	simple := false
	switch unparen(n.X).(type) {
	case *ast.Ident, *ast.SelectorExpr, *ast.StarExpr, *ast.ParenExpr:
		simple = true
	}
	if n.Value != nil {
		x.errorf(n.Pos(), "range over channel with two iteration variables")
	}
	if n.Tok == token.DEFINE && simple {
		// for v, ok := Recv2(c); ok; v, ok = Recv2(c) { B }  (per-iteration v as in Go >= 1.22)
		var key ast.Expr = ast.NewIdent("_")
		if n.Key != nil {
			key = n.Key
		}
		keyName := key.(*ast.Ident).Name
		return &ast.ForStmt{
			Init: &ast.AssignStmt{Lhs: []ast.Expr{ast.NewIdent(keyName), ok}, Tok: token.DEFINE, Rhs: []ast.Expr{call(sim("Recv2"), n.X)}},
			Cond: ast.NewIdent(ok.Name),
			Post: &ast.AssignStmt{Lhs: []ast.Expr{ast.NewIdent(keyName), ast.NewIdent(ok.Name)}, Tok: token.ASSIGN, Rhs: []ast.Expr{call(sim("Recv2"), n.X)}},
			Body: n.Body,
		}
	}
	if n.Key == nil && simple {
		// for range c { B }
		return &ast.ForStmt{
			Init: &ast.AssignStmt{Lhs: []ast.Expr{ast.NewIdent("_"), ok}, Tok: token.DEFINE, Rhs: []ast.Expr{call(sim("Recv2"), n.X)}},
			Cond: ast.NewIdent(ok.Name),
			Post: &ast.AssignStmt{Lhs: []ast.Expr{ast.NewIdent("_"), ast.NewIdent(ok.Name)}, Tok: token.ASSIGN, Rhs: []ast.Expr{call(sim("Recv2"), n.X)}},
			Body: n.Body,
		}
	}
	// general form: evaluate the channel once
	if _, labelled := c.Parent().(*ast.LabeledStmt); labelled {
		x.errorf(n.Pos(), "labelled range over a non-trivial channel expression is not supported by the translator")
	}
	ch := ast.NewIdent(x.fresh("c"))
	tmpv := ast.NewIdent(x.fresh("v"))
	body := []ast.Stmt{
		&ast.AssignStmt{Lhs: []ast.Expr{tmpv, ok}, Tok: token.DEFINE, Rhs: []ast.Expr{call(sim("Recv2"), ast.NewIdent(ch.Name))}},
		&ast.IfStmt{Cond: &ast.UnaryExpr{Op: token.NOT, X: ast.NewIdent(ok.Name)}, Body: &ast.BlockStmt{List: []ast.Stmt{&ast.BranchStmt{Tok: token.BREAK}}}},
	}
	if n.Key != nil {
		body = append(body, &ast.AssignStmt{Lhs: []ast.Expr{n.Key}, Tok: n.Tok, Rhs: []ast.Expr{ast.NewIdent(tmpv.Name)}})
	} else {
		body = append(body, &ast.AssignStmt{Lhs: []ast.Expr{ast.NewIdent("_")}, Tok: token.ASSIGN, Rhs: []ast.Expr{ast.NewIdent(tmpv.Name)}})
	}
	body = append(body, n.Body.List...)
	return &ast.BlockStmt{List: []ast.Stmt{
		&ast.AssignStmt{Lhs: []ast.Expr{ch}, Tok: token.DEFINE, Rhs: []ast.Expr{n.X}},
		&ast.ForStmt{Body: &ast.BlockStmt{List: body}},
	}}
}

// selectStmt turns a select into chansim.Select + switch.
func (x *xl) selectStmt(n *ast.SelectStmt) ast.Stmt {
	var pre []ast.Stmt
	var cases []ast.Expr
	var clauses []ast.Stmt
	hasDefault := false
	idx := ast.NewIdent(x.fresh("i"))
	val := ast.NewIdent(x.fresh("v"))
	okv := ast.NewIdent(x.fresh("ok"))
	k := 0
	for _, cc := range n.Body.List {
		c := cc.(*ast.CommClause)
		if c.Comm == nil {
			hasDefault = true
			clauses = append(clauses, &ast.CaseClause{List: nil, Body: c.Body})
			continue
		}
		chv := ast.NewIdent(x.fresh("c"))
		var body []ast.Stmt
		switch s := c.Comm.(type) {
		case *ast.SendStmt:
			vv := ast.NewIdent(x.fresh("s"))
			pre = append(pre, &ast.AssignStmt{Lhs: []ast.Expr{chv, vv}, Tok: token.DEFINE, Rhs: []ast.Expr{s.Chan, s.Value}})
			// the value must have the channel's element type: SendCase is generic in T and infers it from the channel
			cases = append(cases, call(sim("SendCase"), ast.NewIdent(chv.Name), ast.NewIdent(vv.Name)))
		case *ast.ExprStmt:
			u := unparen(s.X).(*ast.UnaryExpr)
			pre = append(pre, &ast.AssignStmt{Lhs: []ast.Expr{chv}, Tok: token.DEFINE, Rhs: []ast.Expr{u.X}})
			cases = append(cases, call(sim("RecvCase"), ast.NewIdent(chv.Name)))
		case *ast.AssignStmt:
			u := unparen(s.Rhs[0]).(*ast.UnaryExpr)
			pre = append(pre, &ast.AssignStmt{Lhs: []ast.Expr{chv}, Tok: token.DEFINE, Rhs: []ast.Expr{u.X}})
			cases = append(cases, call(sim("RecvCase"), ast.NewIdent(chv.Name)))
			rhs := []ast.Expr{call(sim("As"), ast.NewIdent(chv.Name), ast.NewIdent(val.Name))}
			if len(s.Lhs) == 2 {
				rhs = append(rhs, ast.NewIdent(okv.Name))
			}
			body = append(body, &ast.AssignStmt{Lhs: s.Lhs, Tok: s.Tok, Rhs: rhs})
			if s.Tok == token.DEFINE {
				// keep "declared and not used" away for variables the body ignores
				for _, l := range s.Lhs {
					if id, ok := l.(*ast.Ident); ok && id.Name != "_" {
						body = append(body, &ast.AssignStmt{Lhs: []ast.Expr{ast.NewIdent("_")}, Tok: token.ASSIGN, Rhs: []ast.Expr{ast.NewIdent(id.Name)}})
					}
				}
			} else {
				for _, l := range s.Lhs {
					if id, ok := l.(*ast.Ident); ok {
						if v := x.sharedVarOf(id); v != nil {
							body = append(body, x.wCall(id, s.Pos()))
						}
					}
				}
			}
		}
		body = append(body, c.Body...)
		clauses = append(clauses, &ast.CaseClause{List: []ast.Expr{&ast.BasicLit{Kind: token.INT, Value: strconv.Itoa(k)}}, Body: body})
		k++
	}
	def := "false"
	if hasDefault {
		def = "true"
	} else {
		// keeps the switch a terminating statement whenever the select was one
		clauses = append(clauses, &ast.CaseClause{List: nil, Body: []ast.Stmt{&ast.ExprStmt{X: call(ast.NewIdent("panic"), lit("chansim: select returned an impossible case index"))}}})
	}
	args := append([]ast.Expr{ast.NewIdent(def)}, cases...)
	stmts := append([]ast.Stmt{}, pre...)
	stmts = append(stmts,
		&ast.AssignStmt{Lhs: []ast.Expr{idx, val, okv}, Tok: token.DEFINE, Rhs: []ast.Expr{call(sim("Select"), args...)}},
		&ast.AssignStmt{Lhs: []ast.Expr{ast.NewIdent("_"), ast.NewIdent("_")}, Tok: token.ASSIGN, Rhs: []ast.Expr{ast.NewIdent(val.Name), ast.NewIdent(okv.Name)}},
		&ast.SwitchStmt{Tag: ast.NewIdent(idx.Name), Body: &ast.BlockStmt{List: clauses}},
	)
	return &ast.BlockStmt{List: stmts}
}
