// Package geninst instruments a scratch copy of goderive so that the
// simulator owns map iteration order, package and plugin order and the file
// system. The rewrite is type driven (go/packages + go/types): every range
// over a map and every os.* file-system call in main.go, derive/ and
// plugin/* is redirected, including ones a future change introduces.
package geninst

import (
	"bytes"
	"fmt"
	"go/ast"
	"go/format"
	"go/token"
	"go/types"
	"os"
	"path/filepath"
	"sort"
	"strconv"
	"strings"

	"golang.org/x/tools/go/ast/astutil"
	"golang.org/x/tools/go/packages"
)

const simImport = "github.com/awalterschulze/goderive/verifsim"

// Report lists what was rewritten (goes into evidence).
type Report struct {
	MapRanges    []string
	FSCalls      []string
	PkgOrder     []string
	PluginOrder  []string
	BuildHooks   []string
	Exits        []string
	FilesChanged int
}

var fsFuncs = map[string]bool{
	"Create": true, "OpenFile": true, "Open": true, "Remove": true, "RemoveAll": true, "Rename": true,
	"Mkdir": true, "MkdirAll": true, "WriteFile": true, "ReadFile": true, "Truncate": true, "Chmod": true,
	"CreateTemp": true, "Symlink": true, "Link": true, "File": true,
}

// Instrument rewrites the copy at dir in place. simrtDir holds the verifsim
// runtime sources to inject. env is the environment for `go list`.
func Instrument(dir, simrtDir string, env []string) (*Report, error) {
	cfg := &packages.Config{
		Mode: packages.NeedName | packages.NeedFiles | packages.NeedCompiledGoFiles | packages.NeedSyntax | packages.NeedTypes | packages.NeedTypesInfo | packages.NeedImports | packages.NeedDeps,
		Dir:  dir,
		Env:  env,
	}
	pkgs, err := packages.Load(cfg, ".", "./derive/...", "./plugin/...")
	if err != nil {
		return nil, fmt.Errorf("loading the copy: %v", err)
	}
	rep := &Report{}
	for _, p := range pkgs {
		if len(p.Errors) > 0 {
			return nil, fmt.Errorf("package %s of the copy has errors: %v", p.PkgPath, p.Errors[0])
		}
		for i, f := range p.Syntax {
			path := p.CompiledGoFiles[i]
			if strings.HasSuffix(path, "_test.go") {
				continue
			}
			changed, err := rewriteFile(p, f, path, dir, rep)
			if err != nil {
				return nil, err
			}
			if changed {
				rep.FilesChanged++
			}
		}
	}
	// inject the runtime
	dst := filepath.Join(dir, "verifsim")
	if err := os.MkdirAll(dst, 0o755); err != nil {
		return nil, err
	}
	ents, err := os.ReadDir(simrtDir)
	if err != nil {
		return nil, err
	}
	for _, e := range ents {
		if strings.HasSuffix(e.Name(), ".go") && !strings.HasSuffix(e.Name(), "_test.go") {
			b, err := os.ReadFile(filepath.Join(simrtDir, e.Name()))
			if err != nil {
				return nil, err
			}
			if err := os.WriteFile(filepath.Join(dst, e.Name()), b, 0o644); err != nil {
				return nil, err
			}
		}
	}
	sort.Strings(rep.MapRanges)
	sort.Strings(rep.FSCalls)
	return rep, nil
}

// simIdent / simPath: the package the rewritten code calls into (verifsim for
// goderive itself; RewriteMapRanges points them at another runtime).
var simIdent, simPath = "verifsim", simImport

// rangesOnly restricts rewriteFile to the map-range rule.
var rangesOnly bool

func sim(name string) ast.Expr {
	return &ast.SelectorExpr{X: ast.NewIdent(simIdent), Sel: ast.NewIdent(name)}
}

// RewriteMapRanges applies the map-range rule alone to the files selected by
// only, in the packages matched by patterns under dir: every range over a map
// iterates importPath.Keys(m, site) instead. It serves generated code under
// test (seqsim), whose map iteration order the harness wants to own as well.
func RewriteMapRanges(dir string, env, patterns []string, importPath, ident string, only func(path string) bool) ([]string, error) {
	cfg := &packages.Config{
		Mode: packages.NeedName | packages.NeedFiles | packages.NeedCompiledGoFiles | packages.NeedSyntax | packages.NeedTypes | packages.NeedTypesInfo | packages.NeedImports,
		Dir:  dir,
		Env:  env,
	}
	pkgs, err := packages.Load(cfg, patterns...)
	if err != nil {
		return nil, fmt.Errorf("loading %s: %v", dir, err)
	}
	oldIdent, oldPath := simIdent, simPath
	simIdent, simPath, rangesOnly = ident, importPath, true
	defer func() { simIdent, simPath, rangesOnly = oldIdent, oldPath, false }()
	rep := &Report{}
	for _, p := range pkgs {
		if len(p.Errors) > 0 {
			return nil, fmt.Errorf("package %s has errors: %v", p.PkgPath, p.Errors[0])
		}
		for i, f := range p.Syntax {
			path := p.CompiledGoFiles[i]
			if !only(path) {
				continue
			}
			if _, err := rewriteFile(p, f, path, dir, rep); err != nil {
				return nil, err
			}
		}
	}
	sort.Strings(rep.MapRanges)
	return rep.MapRanges, nil
}

func simpleExpr(e ast.Expr) bool {
	switch x := e.(type) {
	case *ast.Ident:
		return true
	case *ast.SelectorExpr:
		return simpleExpr(x.X)
	case *ast.ParenExpr:
		return simpleExpr(x.X)
	case *ast.StarExpr:
		return simpleExpr(x.X)
	}
	return false
}

func rewriteFile(p *packages.Package, f *ast.File, path, root string, rep *Report) (bool, error) {
	info := p.TypesInfo
	fset := p.Fset
	rel, _ := filepath.Rel(root, path)
	site := func(pos token.Pos) string { return rel + ":" + strconv.Itoa(fset.Position(pos).Line) }
	changed := false
	tmp := 0
	var firstErr error

	isOS := func(id *ast.Ident) bool {
		pn, ok := info.Uses[id].(*types.PkgName)
		return ok && pn.Imported().Path() == "os"
	}

	astutil.Apply(f, nil, func(c *astutil.Cursor) bool {
		switch n := c.Node().(type) {
		case *ast.RangeStmt:
			t := info.TypeOf(n.X)
			if t == nil {
				return true
			}
			if _, ok := t.Underlying().(*types.Map); !ok {
				return true
			}
			if !simpleExpr(n.X) {
				firstErr = fmt.Errorf("%s: range over a map-valued expression that is not a plain variable/field; the rewriter refuses it rather than evaluate it twice", site(n.Pos()))
				return false
			}
			tmp++
			k := ast.NewIdent(fmt.Sprintf("_vsK%d", tmp))
			v := ast.NewIdent(fmt.Sprintf("_vsV%d", tmp))
			ok := ast.NewIdent(fmt.Sprintf("_vsOK%d", tmp))
			var pre []ast.Stmt
			pre = append(pre,
				&ast.AssignStmt{Lhs: []ast.Expr{v, ok}, Tok: token.DEFINE, Rhs: []ast.Expr{&ast.IndexExpr{X: n.X, Index: ast.NewIdent(k.Name)}}},
				&ast.IfStmt{Cond: &ast.UnaryExpr{Op: token.NOT, X: ast.NewIdent(ok.Name)}, Body: &ast.BlockStmt{List: []ast.Stmt{&ast.BranchStmt{Tok: token.CONTINUE}}}},
				&ast.AssignStmt{Lhs: []ast.Expr{ast.NewIdent("_")}, Tok: token.ASSIGN, Rhs: []ast.Expr{ast.NewIdent(v.Name)}},
			)
			isBlank := func(e ast.Expr) bool {
				id, ok := e.(*ast.Ident)
				return e == nil || (ok && id.Name == "_")
			}
			if !isBlank(n.Key) {
				pre = append(pre, &ast.AssignStmt{Lhs: []ast.Expr{n.Key}, Tok: n.Tok, Rhs: []ast.Expr{ast.NewIdent(k.Name)}})
				if n.Tok == token.DEFINE {
					pre = append(pre, &ast.AssignStmt{Lhs: []ast.Expr{ast.NewIdent("_")}, Tok: token.ASSIGN, Rhs: []ast.Expr{ast.NewIdent(n.Key.(*ast.Ident).Name)}})
				}
			}
			if !isBlank(n.Value) {
				pre = append(pre, &ast.AssignStmt{Lhs: []ast.Expr{n.Value}, Tok: n.Tok, Rhs: []ast.Expr{ast.NewIdent(v.Name)}})
				if n.Tok == token.DEFINE {
					pre = append(pre, &ast.AssignStmt{Lhs: []ast.Expr{ast.NewIdent("_")}, Tok: token.ASSIGN, Rhs: []ast.Expr{ast.NewIdent(n.Value.(*ast.Ident).Name)}})
				}
			}
			body := &ast.BlockStmt{List: append(pre, n.Body.List...)}
			c.Replace(&ast.RangeStmt{
				Key: ast.NewIdent("_"), Value: k, Tok: token.DEFINE,
				X:    &ast.CallExpr{Fun: sim("Keys"), Args: []ast.Expr{n.X, &ast.BasicLit{Kind: token.STRING, Value: strconv.Quote(site(n.Pos()))}}},
				Body: body,
			})
			rep.MapRanges = append(rep.MapRanges, site(n.Pos()))
			changed = true
		case *ast.SelectorExpr:
			if rangesOnly {
				return true
			}
			if id, ok := n.X.(*ast.Ident); ok && isOS(id) && fsFuncs[n.Sel.Name] {
				c.Replace(sim(n.Sel.Name))
				rep.FSCalls = append(rep.FSCalls, site(n.Pos())+" os."+n.Sel.Name)
				changed = true
			} else if ok && isOS(id) && n.Sel.Name == "Exit" {
				c.Replace(sim("Exit"))
				rep.Exits = append(rep.Exits, site(n.Pos())+" os.Exit")
				changed = true
			} else if ok && (n.Sel.Name == "Fatal" || n.Sel.Name == "Fatalf" || n.Sel.Name == "Fatalln") {
				if pn, isPkg := info.Uses[id].(*types.PkgName); isPkg && pn.Imported().Path() == "log" {
					c.Replace(sim(n.Sel.Name))
					rep.Exits = append(rep.Exits, site(n.Pos())+" log."+n.Sel.Name)
					changed = true
				}
			}
		case *ast.CallExpr:
			if rangesOnly {
				return true
			}
			if sel, ok := n.Fun.(*ast.SelectorExpr); ok && sel.Sel.Name == "InitialPackages" {
				if s := info.Selections[sel]; s != nil && strings.HasSuffix(s.Recv().String(), "go/loader.Program") {
					if _, wrapped := c.Parent().(*ast.CallExpr); wrapped {
						if pc := c.Parent().(*ast.CallExpr); isSim(pc.Fun, "PkgOrder") {
							return true
						}
					}
					if !simpleExpr(sel.X) {
						firstErr = fmt.Errorf("%s: InitialPackages on a non-trivial receiver expression", site(n.Pos()))
						return false
					}
					created := &ast.CallExpr{Fun: ast.NewIdent("len"), Args: []ast.Expr{&ast.SelectorExpr{X: sel.X, Sel: ast.NewIdent("Created")}}}
					c.Replace(&ast.CallExpr{Fun: sim("PkgOrder"), Args: []ast.Expr{n, created}})
					rep.PkgOrder = append(rep.PkgOrder, site(n.Pos()))
					changed = true
				}
			}
		case *ast.FuncDecl:
			if !rangesOnly && p.Name == "main" && n.Name.Name == "main" && n.Recv == nil && n.Body != nil {
				n.Body.List = append([]ast.Stmt{&ast.ExprStmt{X: &ast.CallExpr{Fun: sim("InstallBuildHooks")}}, &ast.DeferStmt{Call: &ast.CallExpr{Fun: sim("AtExit")}}}, n.Body.List...)
				rep.BuildHooks = append(rep.BuildHooks, site(n.Pos()))
				changed = true
			}
		case *ast.CompositeLit:
			if !rangesOnly && (p.PkgPath == "github.com/awalterschulze/goderive" || p.Name == "main") {
				t := info.TypeOf(n)
				if t != nil && strings.HasSuffix(t.String(), "goderive/derive.Plugin") && strings.HasPrefix(t.String(), "[]") {
					if pc, ok := c.Parent().(*ast.CallExpr); ok && isSim(pc.Fun, "Shuffle") {
						return true
					}
					c.Replace(&ast.CallExpr{Fun: sim("Shuffle"), Args: []ast.Expr{n}})
					rep.PluginOrder = append(rep.PluginOrder, site(n.Pos()))
					changed = true
				}
			}
		}
		return true
	})
	if firstErr != nil {
		return false, firstErr
	}
	if !changed {
		return false, nil
	}
	astutil.AddImport(fset, f, simPath)
	if !astutil.UsesImport(f, "os") {
		astutil.DeleteImport(fset, f, "os")
	}
	if !astutil.UsesImport(f, "log") {
		astutil.DeleteImport(fset, f, "log")
	}
	var buf bytes.Buffer
	if err := format.Node(&buf, fset, f); err != nil {
		return false, fmt.Errorf("printing %s: %v", rel, err)
	}
	out, err := format.Source(buf.Bytes())
	if err != nil {
		return false, fmt.Errorf("instrumented %s does not parse: %v", rel, err)
	}
	return true, os.WriteFile(path, out, 0o644)
}

func isSim(e ast.Expr, name string) bool {
	s, ok := e.(*ast.SelectorExpr)
	if !ok {
		return false
	}
	id, ok := s.X.(*ast.Ident)
	return ok && id.Name == simIdent && s.Sel.Name == name
}
