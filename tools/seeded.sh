#!/bin/bash
# sensitivity self-test: every seeded change must make (one of) the check(s) recorded in its meta.json exit 1.
# usage: tools/seeded.sh [seeded-id ...]
cd "$(dirname "$0")/.."
ids=${@:-$(ls seeded | grep '^C')}
rc=0
for id in $ids; do
  m=seeded/$id/meta.json; [ -f $m ] || continue
  patch=seeded/$id/$(python3 -c "import json;print(json.load(open('$m')).get('patch','patch.diff'))")
  caught=no
  if [ -z "$(python3 -c "import json;print(' '.join(json.load(open('$m')).get('caught_by',[])))")" ]; then
    echo "$id: not claimed (recorded in DESIGN.md section 13 as not caught)"; continue
  fi
  for chk in $(python3 -c "import json;print(' '.join(json.load(open('$m')).get('caught_by',[])))"); do
    out=$(tools/mutrun.sh $PWD/$patch $chk 2>&1)
    if echo "$out" | grep -q "^VIOLATION property=$chk"; then caught="$chk"; break; fi
    if echo "$out" | grep -q "PATCH DOES NOT APPLY"; then caught="no(PATCH-DOES-NOT-APPLY:port-it)"; fi
  done
  echo "$id: caught_by=$caught"
  case "$caught" in no*) rc=1;; esac
done
rm -rf replays/mut
exit $rc
