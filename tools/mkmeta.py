#!/usr/bin/env python3
"""Completes seeded/<id>/meta.json from the table in DESIGN.md section 13
(needs_to_manifest, caught_by, caught_note, patch)."""
import json, os, re, sys
root = os.path.dirname(os.path.dirname(os.path.abspath(__file__)))
rows = {}
insec = False
for line in open(os.path.join(root, 'DESIGN.md')):
    if line.startswith('## 13.'):
        insec = True
    if not insec or not line.startswith('| C'):
        continue
    cells = [c.strip() for c in line.strip().strip('|').split('|')]
    if len(cells) == 3:
        rows[cells[0]] = cells
missing = []
for d in sorted(os.listdir(os.path.join(root, 'seeded'))):
    mp = os.path.join(root, 'seeded', d, 'meta.json')
    if not os.path.isfile(mp):
        continue
    m = json.load(open(mp))
    r = rows.get(d)
    if not r:
        missing.append(d)
        continue
    m['needs_to_manifest'] = r[1]
    m['caught_note'] = r[2]
    m['caught_by'] = sorted(set(re.findall(r'\bC\d\d\b', r[2])))
    if r[2].startswith('**not caught**') or 'not claimed' in r[2]:
        m['caught_by'] = []
    m['patch'] = 'patch.ported.diff' if os.path.exists(os.path.join(root, 'seeded', d, 'patch.ported.diff')) else 'patch.diff'
    json.dump(m, open(mp, 'w'), indent=1)
    open(mp, 'a').write('\n')
for d in rows:
    if not os.path.isdir(os.path.join(root, 'seeded', d)):
        print('row without directory:', d)
if missing:
    print('no DESIGN row for:', missing)
    sys.exit(1)
print(len(rows), 'rows')
