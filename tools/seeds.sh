#!/bin/bash
# robustness: every registered quick check must exit 0 on the unchanged tree for several seeds.
# usage: tools/seeds.sh [seed ...]   (default 2 3 5)
cd "$(dirname "$0")/.."
seeds=${@:-2 3 5}
rc=0
export VERIF_EVIDENCE_DIR=$(mktemp -d /dev/shm/verifev.XXXXXX)   # evidence of these runs does not touch the committed files
for s in $seeds; do
  for id in $(python3 -c "import json;print(' '.join(c['property_id'] for c in json.load(open('MANIFEST.json'))['checks']))"); do
    out=$(VERIF_SEED=$s bin/verif check $id --tier quick 2>&1); code=$?
    echo "seed=$s $id exit=$code :: $(echo "$out" | grep -v '^KNOWN' | tail -1 | cut -c1-140)"
    [ $code -ne 0 ] && { rc=1; echo "$out" | grep -v '^KNOWN' | tail -4 | cut -c1-400; }
  done
done
rm -rf $VERIF_EVIDENCE_DIR
exit $rc
