#!/bin/bash
# robustness: every registered quick check must exit 0 on the unchanged tree for several seeds.
# usage: tools/seeds.sh [seed ...]   (default 2 3 5)
cd "$(dirname "$0")/.."
seeds=${@:-2 3 5}
rc=0
export VERIF_ROOT=$(mktemp -d /dev/shm/verifroot.XXXXXX)   # evidence and replays of these runs do not touch the committed ones
mkdir -p $VERIF_ROOT; cp known_findings.json MANIFEST.json $VERIF_ROOT/; ln -s $PWD/harness $VERIF_ROOT/harness; ln -s $PWD/simrt $VERIF_ROOT/simrt
for f in go.mod go.sum tape chansim internal seqrt cmd; do ln -s $PWD/$f $VERIF_ROOT/$f; done
for s in $seeds; do
  for id in $(python3 -c "import json;print(' '.join(c['property_id'] for c in json.load(open('MANIFEST.json'))['checks']))"); do
    out=$(VERIF_SEED=$s bin/verif check $id --tier quick 2>&1); code=$?
    echo "seed=$s $id exit=$code :: $(echo "$out" | grep -v '^KNOWN' | tail -1 | cut -c1-140)"
    [ $code -ne 0 ] && { rc=1; echo "$out" | grep -v '^KNOWN' | tail -4 | cut -c1-400; cp $VERIF_ROOT/replays/*.json replays/ 2>/dev/null; }
  done
done
rm -rf $VERIF_ROOT
exit $rc
