#!/bin/bash
# usage: tools/mutrun.sh <patch.diff> <check-id> [extra env...]
# Applies the patch to a scratch copy of /repo (never to /repo itself), runs the check
# against the copy via VERIF_REPO, removes the copy.
set -u
patch=$1; id=$2; shift 2
d=$(mktemp -d /dev/shm/mutrepo.XXXXXX)
rsync -a --exclude .git /repo/ $d/
( cd $d && git init -q && git add -A >/dev/null 2>&1 && git -c user.email=a@b -c user.name=x commit -qm base >/dev/null 2>&1; ( git apply "$patch" 2>/dev/null || git apply --3way "$patch" 2>/dev/null || patch -p1 --fuzz=3 -s < "$patch" ) ) || { echo "PATCH DOES NOT APPLY"; rm -rf $d; exit 9; }
mkdir -p /verif/replays/mut
env VERIF_REPO=$d VERIF_EVIDENCE_DIR=$d/.evidence VERIF_REPLAYS_DIR=/verif/replays/mut "$@" /verif/bin/verif check $id
rc=$?
rm -rf $d
echo "mutrun: $patch on $id -> exit $rc"
exit $rc
