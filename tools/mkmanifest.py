#!/usr/bin/env python3
# regenerates /verif/MANIFEST.json; the set of claimed checks is the CLAIMED table below
import json
na = {
 "C02":"pure function of two values: no schedule, clock, fault or interleaving for a simulator to own (DESIGN.md section 6)",
 "C03":"pure function of two values; map comparison sorts keys first, so no order dependence to explore",
 "C04":"pure function of one value; cross-process repeatability has no injectable seam; its map-iteration slice is exercised inside C18",
 "C05":"pure heap-to-heap function; its 'histories' are prior destination values, i.e. inputs, not interleavings or faults",
 "C06":"pure string function plus a compiler round trip; nothing nondeterministic or faultable",
 "C13":"pure functions (Sort/Keys/Min/Max); where result order depends on map iteration the statement allows any order",
 "C14":"pure functions over lists/sets under derived Equal; no schedule or fault dimension",
 "C15":"pure re-plumbing of arguments; no schedule or fault dimension",
 "C17":"pure functions over slices and strings; no schedule or fault dimension",
}
GEN_NOTE="Trusted: the type-driven source rewriter (checked on every run by the transparency test against the plain binary), the go/packages type-check oracle, and the workload generator's notion of 'supported' (DESIGN.md appendix A). The program dimension is sampled."
CLAIMED = {
 "C19": dict(engine="chansim", cat="exploration", ref="DESIGN.md sections 3, 5.C19", tech="deterministic simulation: seeded schedule search with stall/delay faults over translated generated code",
   text="Seeded search over schedules: the text goderive (built from the working tree) generates for 13 channel-combinator call shapes is translated statement by statement onto a deterministic scheduler that owns every interleaving, select choice, partner choice, buffer size, start order and stall; exactly-once, per-input order, close-once-after-drain, no send-on-closed, no deadlock, no leak, no step-budget overrun and happens-before race freedom are checked on every run (millions per minute). Sampling, not proof; failures are minimised tapes that replay exactly.",
   note="Trusted: the translator (validated by compiling its output and by its self-test corpus) and chansim's model of channel/WaitGroup semantics and of the Go memory model edges. Producers, consumers and argument functions are harness code."),
 "C20": dict(engine="chansim", cat="exploration", ref="DESIGN.md sections 3, 5.C20", tech="deterministic simulation: seeded schedule search with injected function failures",
   text="Seeded search over schedules and failing subsets: generated deriveDo for 2, 3 and 4 functions runs on the deterministic scheduler; argument functions rendezvous with each other (acyclic, so completion needs all of them started), fail in tape-chosen subsets with distinct error values; checked: Do returns, only after all functions returned, values in position, nil error iff none failed else one of the returned errors, no goroutine left blocked, no happens-before race on the result variables.",
   note="As C19."),
 "C01": dict(engine="gensim", cat="exploration", ref="DESIGN.md sections 4, 5.C01", tech="deterministic simulation of goderive runs: simulator-chosen map order / package order / GOMAXPROCS over seeded programs; type-check oracle",
   text="Each generated module is executed by the instrumented goderive (real code, sub-process) under a simulator-chosen map-iteration plan, package order and GOMAXPROCS, through however many write/reload passes it needs; the run must exit 0 without panic and the package with its tests must type-check against the emitted file, which must be gofmt-clean. What simulation adds over plain program generation is that every world is decided under chosen, replayable orders; the program dimension itself is sampled.", note=GEN_NOTE),
 "C07": dict(engine="gensim", cat="exploration", ref="DESIGN.md sections 4, 5.C07", tech="deterministic simulation: edit/run/crash histories on a simulated disk with enumerated crash points, refinement against a from-scratch run",
   text="Histories of edits, runs, crashes (before any file operation, inside any write), ENOSPC short writes and I/O errors over generated modules; after every fault-free run exit status and derived.gen.go bytes must equal those of a from-scratch run on the same sources under the same map plan; per history, crash points of the final run and truncations of the previous/new output to first-k bytes are enumerated (sampled in the quick tier) and each must be recovered from in one run. Reference model = the generator itself from scratch, which is exactly what the property states.", note=GEN_NOTE+" Crash model: process crash (written bytes survive)."),
 "C08": dict(engine="gensim", cat="exploration", ref="DESIGN.md sections 4, 5.C08", tech="deterministic simulation: same world under permuted map iteration, package order, GOMAXPROCS and invocation spelling; byte equality",
   text="Every generated module is executed 5-9 times from one initial disk state, the executions differing only in simulator-owned choices (map-iteration permutation for every range over a map in goderive, permutation of loader.InitialPackages, GOMAXPROCS, cwd/spelling/grouping/order of package arguments); each package's derived.gen.go must be byte-identical across all of them. The seam turns a one-in-a-dozen flake into a replayable pair of executions.", note=GEN_NOTE),
 "C10": dict(engine="gensim", cat="exploration", ref="DESIGN.md sections 4, 5.C10", tech="deterministic simulation: disk snapshots around one run under injected I/O faults and error outcomes; independent rewrite oracle",
   text="The whole module is snapshotted before and after one simulated goderive run that ends, by the simulator's choice, in success, a generator error, a load error or an injected I/O fault (EIO/EACCES/EROFS/ENOSPC on create, write, close or remove of derived.gen.go, short writes); without flags nothing but derived.gen.go of processed packages may differ. Under -autoname/-dedup on modules with injected clashes each user file must equal gofmt(original with exactly the renamed call identifiers substituted), computed from an independent go/parser parse, and files without a renamed call must be byte-identical.", note=GEN_NOTE),
 "C11": dict(engine="gensim", cat="exploration", ref="DESIGN.md sections 4, 5.C11", tech="deterministic simulation: clash worlds under all four flag combinations and permuted map order, with and without a prior derived file; independent clash predicate + go/types call-site check",
   text="Modules with conflicts and duplicates (small name x type x plugin alphabet, and random modules with injected clashes and hand-written called functions in the fresh-name path), optionally starting from a derived.gen.go generated for an earlier clash-free version, are executed under all four -autoname/-dedup combinations and two map-iteration plans; the exit status must be what the statement prescribes from an independently computed clash predicate and must not depend on map order; after a successful flagged run the package must type-check, every call site's callee must have parameter types identical to the argument types, and after -dedup no plugin has two functions with one parameter list.", note=GEN_NOTE),
 "C12": dict(engine="gensim", cat="exploration", ref="DESIGN.md sections 4, 5.C12", tech="deterministic simulation: default vs prefixed rendering of one world under permuted plugin registration and map order; canonical-form equality",
   text="Each generated module is rendered with default names and with a tape-drawn prefix map (global prefix, per-plugin overrides, nested prefixes), the prefixed one executed under two simulator-chosen plugin registration permutations and map plans; exit status must agree, a global-prefix output must be textually the default output after mapping the prefix back, and otherwise both outputs must have the same canonical form (functions renamed to plugin-by-longest-prefix/parameter-types, sorted); outputs under both registration orders must be identical.", note=GEN_NOTE),
}
PENDING = {
 "C09":"claimed in DESIGN.md (gensim); check not built yet in this commit",
 "C10":"claimed in DESIGN.md (gensim); check not built yet in this commit",
 "C11":"claimed in DESIGN.md (gensim); check not built yet in this commit",
 "C12":"claimed in DESIGN.md (gensim); check not built yet in this commit",
 "C16":"claimed in DESIGN.md (seqsim); check not built yet in this commit",
 "C18":"claimed in DESIGN.md (seqsim); check not built yet in this commit",
}
import sys
def chk(pid, d):
    return {"property_id":pid,"quick_cmd":"./verif check %s --tier quick"%pid,"thorough_cmd":"./verif check %s --tier thorough"%pid,
      "evidence_file":"evidence/%s.json"%pid,"replay_cmd_template":"./verif replay {path}","engine":d["engine"],
      "level_claimed":{"category":d["cat"],"text":d["text"],"design_ref":d["ref"]},"level_note":d["note"],"technique":d["tech"]}
for k in CLAIMED: PENDING.pop(k, None)
m={"version":1,"setup_cmd":"./setup.sh",
 "hooks":{"guard":"none in /repo: checks instrument a scratch copy of the working tree by go/ast+go/types source rewriting (verif xlate / verif instrument)","enable":"./verif check <id> copies /repo to tmpfs, builds goderive from the copy and rewrites the copy / its output; nothing is compiled into the shipped tree","baseline_off_cmd":"cd /repo && PATH=/root/go/pkg/mod/golang.org/toolchain@v0.0.1-go1.24.0.linux-amd64/bin:$PATH GOTOOLCHAIN=local GOFLAGS=-mod=mod GOPROXY=off go test -vet=off -count=1 ./...","source_commits":[],"add_only":True},
 "engines":[
  {"name":"chansim","path":"chansim/ internal/xlate/ harness/chan/","serves_properties":["C19","C20"],"kind_free_text":"deterministic scheduler + channel/select/sync stand-ins + vector-clock race detector; generated code translated onto it; seeded search over schedules with tape shrinking"},
  {"name":"gensim","path":"simrt/verifsim/ internal/geninst/ internal/world/ cmd/verif/","serves_properties":[k for k in sorted(CLAIMED) if CLAIMED[k]["engine"]=="gensim"],"kind_free_text":"goderive as a simulated process: type-driven source instrumentation of a scratch copy (map order, package/plugin order, file-system shim with crashes, short writes, I/O errors), seeded worlds and histories, reference = from-scratch run / type checker"}],
 "checks":[chk(k,CLAIMED[k]) for k in sorted(CLAIMED)],
 "not_applicable":[{"property_id":k,"reason":v} for k,v in sorted({**na,**PENDING}.items())],
 "notes":"Technique family: deterministic simulation with fault injection. See DESIGN.md. Genuine defects found are in known_findings.json (fixed: with the fix commit; known: recorded). Properties listed as 'check not built yet' are claimed by the design and move into checks as their simulators land."}
json.dump(m,open('/verif/MANIFEST.json','w'),indent=1)
