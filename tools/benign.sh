#!/bin/bash
# soundness self-test: behaviour-preserving rewrites of goderive must keep every check green.
# usage: tools/benign.sh [check ids...]   (default: all registered checks)
cd /verif
ids=${@:-$(python3 -c "import json;print(' '.join(c['property_id'] for c in json.load(open('MANIFEST.json'))['checks']))")}
rc=0
for p in mutants/benign/*.diff; do
  for id in $ids; do
    out=$(tools/mutrun.sh /verif/$p $id 2>&1); code=$(echo "$out" | grep -o 'exit [0-9]*$' | tail -1)
    echo "$(basename $p .diff) $id -> $code"
    if ! echo "$code" | grep -q 'exit 0'; then rc=1; echo "$out" | grep -v '^KNOWN' | tail -4 | cut -c1-300; fi
  done
done
exit $rc
