#!/bin/bash
# runs the repository's pinned suite on /repo (guard off = as is) and prints pass/fail counts
. /verif/env.sh
cd /repo && go test -vet=off -count=1 -v ./... > /tmp/baseline.log 2>&1
echo "PASS=$(grep -c '^ *--- PASS' /tmp/baseline.log) FAIL=$(grep -c '^ *--- FAIL' /tmp/baseline.log) pkgFAIL=$(grep '^FAIL' /tmp/baseline.log | grep -v 'gopath2' | grep -vc '^FAIL$')"
rm -f /repo/test/normal/gostring_gen_test.go
git -C /repo status --short | head
