#!/usr/bin/env python3-vt
import json,jsonschema,sys,glob
jsonschema.validate(json.load(open('/verif/MANIFEST.json')),json.load(open('/root/.vp/MANIFEST.schema.json')))
es=json.load(open('/root/.vp/EVIDENCE.schema.json'))
for f in sorted(glob.glob('/verif/evidence/*.json')):
    jsonschema.validate(json.load(open(f)),es); print('ok',f)
m=json.load(open('/verif/MANIFEST.json'))
ids={c['property_id'] for c in m['checks']}|{c['property_id'] for c in m.get('not_applicable',[])}
allp={json.loads(l)['id'] for l in open('/verif/properties.jsonl')}
assert ids==allp,(ids^allp)
print('manifest valid; all properties accounted for')
