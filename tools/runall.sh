#!/bin/bash
# runs every registered check's quick (or thorough) command, prints exit codes, validates evidence
tier=${1:-quick}
cd "$(dirname "$0")/.."
for id in $(python3 -c "import json;print(' '.join(c['property_id'] for c in json.load(open('MANIFEST.json'))['checks']))"); do
  s=$(date +%s); out=$(./verif check $id --tier $tier 2>&1); rc=$?; e=$(date +%s)
  echo "$id exit=$rc $((e-s))s :: $(echo "$out" | grep -v '^KNOWN' | tail -1 | cut -c1-160)"
  echo "$out" | grep '^KNOWN' | cut -c1-120
done
[ "$PWD" = /verif ] && python3-vt tools/validate.py | tail -1
