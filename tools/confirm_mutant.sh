#!/bin/bash
# usage: tools/confirm_mutant.sh <mutant-dir (has patch.diff, demo/run.sh)> <seeded-id> <property>
# Confirms in a scratch worktree of /repo: patch applies, goderive builds, the pinned suite
# passes (279 tests, no FAIL except the pre-existing gopath2 "setup failed"), demo fails with
# the patch and passes without. Writes /verif/seeded/<id>/{patch.diff,demo/,README.md,confirm.log}.
set -u
src=$1; id=$2; prop=$3
. /verif/env.sh
out=/verif/seeded/$id
mkdir -p $out
log=$out/confirm.log
: > $log
wt=/tmp/confirm.$id.$$
git -C /repo worktree add -q --detach $wt HEAD >>$log 2>&1 || { echo "worktree failed" | tee -a $log; exit 2; }
trap 'git -C /repo worktree remove --force $wt >/dev/null 2>&1; rm -rf $wt' EXIT
cp $src/patch.diff $out/patch.diff
rm -rf $out/demo; cp -r $src/demo $out/demo
[ -f $src/README.md ] && cp $src/README.md $out/README.md
res() { echo "$1" | tee -a $log; }
# 1. demo on the pristine tree must pass
( cd $out/demo && bash run.sh $wt ) >>$log 2>&1; rc_clean=$?
res "demo_on_pristine_exit=$rc_clean"
git -C $wt checkout -q -- . ; git -C $wt clean -fdq
# 2. apply
( cd $wt && git apply $out/patch.diff ) >>$log 2>&1 || { res "apply=FAILED"; exit 3; }
res "apply=ok files=$(cd $wt && git diff --name-only | tr '\n' ' ')"
# 3. build
( cd $wt && go build . ./derive/... ./plugin/... ) >>$log 2>&1; res "build_exit=$?"
# 4. suite
( cd $wt && go test -vet=off -count=1 -v ./... ) > $wt/.suite.log 2>&1
pass=$(grep -c '^ *--- PASS' $wt/.suite.log); fail=$(grep -c '^ *--- FAIL' $wt/.suite.log)
pkgfail=$(grep '^FAIL' $wt/.suite.log | grep -v 'gopath2/src/package2 \[setup failed\]' | grep -v '^FAIL$' | tr '\n' ';')
res "suite_pass=$pass suite_fail=$fail other_pkg_fail=[$pkgfail]"
rm -f $wt/.suite.log $wt/test/normal/gostring_gen_test.go
# 5. demo with patch must fail
( cd $out/demo && bash run.sh $wt ) >>$log 2>&1; rc_mut=$?
res "demo_on_patched_exit=$rc_mut"
ok=false
if [ $rc_clean -eq 0 ] && [ $rc_mut -ne 0 ] && [ $fail -eq 0 ] && [ -z "$pkgfail" ] && [ $pass -ge 279 ]; then ok=true; fi
res "confirmed=$ok"
cat > $out/meta.json <<J
{"id": "$id", "property": "$prop", "confirmed": $ok, "demo_on_pristine_exit": $rc_clean, "demo_on_patched_exit": $rc_mut,
 "suite_pass": $pass, "suite_fail": $fail, "source": "$src",
 "ran": "tools/confirm_mutant.sh: scratch worktree of /repo; demo/run.sh on pristine; git apply patch.diff; go build . ./derive/... ./plugin/...; go test -vet=off -count=1 -v ./...; demo/run.sh on patched"}
J
