// Package simatomic is what the translator substitutes for import "sync/atomic":
// every operation is a scheduling point of the simulator and a synchronisation edge.
package simatomic

import "verif/chansim"

func AddInt32(addr *int32, delta int32) int32 {
	chansim.AtomicOp(addr, "add")
	*addr += delta
	return *addr
}
func LoadInt32(addr *int32) int32     { chansim.AtomicOp(addr, "load"); return *addr }
func StoreInt32(addr *int32, v int32) { chansim.AtomicOp(addr, "store"); *addr = v }
func SwapInt32(addr *int32, v int32) int32 {
	chansim.AtomicOp(addr, "swap")
	old := *addr
	*addr = v
	return old
}
func CompareAndSwapInt32(addr *int32, old, new int32) bool {
	chansim.AtomicOp(addr, "cas")
	if *addr == old {
		*addr = new
		return true
	}
	return false
}

func AddInt64(addr *int64, delta int64) int64 {
	chansim.AtomicOp(addr, "add")
	*addr += delta
	return *addr
}
func LoadInt64(addr *int64) int64     { chansim.AtomicOp(addr, "load"); return *addr }
func StoreInt64(addr *int64, v int64) { chansim.AtomicOp(addr, "store"); *addr = v }
func SwapInt64(addr *int64, v int64) int64 {
	chansim.AtomicOp(addr, "swap")
	old := *addr
	*addr = v
	return old
}
func CompareAndSwapInt64(addr *int64, old, new int64) bool {
	chansim.AtomicOp(addr, "cas")
	if *addr == old {
		*addr = new
		return true
	}
	return false
}

func AddUint32(addr *uint32, delta uint32) uint32 {
	chansim.AtomicOp(addr, "add")
	*addr += delta
	return *addr
}
func LoadUint32(addr *uint32) uint32     { chansim.AtomicOp(addr, "load"); return *addr }
func StoreUint32(addr *uint32, v uint32) { chansim.AtomicOp(addr, "store"); *addr = v }
func SwapUint32(addr *uint32, v uint32) uint32 {
	chansim.AtomicOp(addr, "swap")
	old := *addr
	*addr = v
	return old
}
func CompareAndSwapUint32(addr *uint32, old, new uint32) bool {
	chansim.AtomicOp(addr, "cas")
	if *addr == old {
		*addr = new
		return true
	}
	return false
}

func AddUint64(addr *uint64, delta uint64) uint64 {
	chansim.AtomicOp(addr, "add")
	*addr += delta
	return *addr
}
func LoadUint64(addr *uint64) uint64     { chansim.AtomicOp(addr, "load"); return *addr }
func StoreUint64(addr *uint64, v uint64) { chansim.AtomicOp(addr, "store"); *addr = v }
func SwapUint64(addr *uint64, v uint64) uint64 {
	chansim.AtomicOp(addr, "swap")
	old := *addr
	*addr = v
	return old
}
func CompareAndSwapUint64(addr *uint64, old, new uint64) bool {
	chansim.AtomicOp(addr, "cas")
	if *addr == old {
		*addr = new
		return true
	}
	return false
}

func AddUintptr(addr *uintptr, delta uintptr) uintptr {
	chansim.AtomicOp(addr, "add")
	*addr += delta
	return *addr
}
func LoadUintptr(addr *uintptr) uintptr     { chansim.AtomicOp(addr, "load"); return *addr }
func StoreUintptr(addr *uintptr, v uintptr) { chansim.AtomicOp(addr, "store"); *addr = v }
func SwapUintptr(addr *uintptr, v uintptr) uintptr {
	chansim.AtomicOp(addr, "swap")
	old := *addr
	*addr = v
	return old
}
func CompareAndSwapUintptr(addr *uintptr, old, new uintptr) bool {
	chansim.AtomicOp(addr, "cas")
	if *addr == old {
		*addr = new
		return true
	}
	return false
}

type Int32 struct{ v int32 }

func (x *Int32) Load() int32                        { return LoadInt32(&x.v) }
func (x *Int32) Store(v int32)                      { StoreInt32(&x.v, v) }
func (x *Int32) Add(d int32) int32                  { return AddInt32(&x.v, d) }
func (x *Int32) Swap(v int32) int32                 { return SwapInt32(&x.v, v) }
func (x *Int32) CompareAndSwap(old, new int32) bool { return CompareAndSwapInt32(&x.v, old, new) }

type Int64 struct{ v int64 }

func (x *Int64) Load() int64                        { return LoadInt64(&x.v) }
func (x *Int64) Store(v int64)                      { StoreInt64(&x.v, v) }
func (x *Int64) Add(d int64) int64                  { return AddInt64(&x.v, d) }
func (x *Int64) Swap(v int64) int64                 { return SwapInt64(&x.v, v) }
func (x *Int64) CompareAndSwap(old, new int64) bool { return CompareAndSwapInt64(&x.v, old, new) }

type Uint32 struct{ v uint32 }

func (x *Uint32) Load() uint32                        { return LoadUint32(&x.v) }
func (x *Uint32) Store(v uint32)                      { StoreUint32(&x.v, v) }
func (x *Uint32) Add(d uint32) uint32                 { return AddUint32(&x.v, d) }
func (x *Uint32) Swap(v uint32) uint32                { return SwapUint32(&x.v, v) }
func (x *Uint32) CompareAndSwap(old, new uint32) bool { return CompareAndSwapUint32(&x.v, old, new) }

type Uint64 struct{ v uint64 }

func (x *Uint64) Load() uint64                        { return LoadUint64(&x.v) }
func (x *Uint64) Store(v uint64)                      { StoreUint64(&x.v, v) }
func (x *Uint64) Add(d uint64) uint64                 { return AddUint64(&x.v, d) }
func (x *Uint64) Swap(v uint64) uint64                { return SwapUint64(&x.v, v) }
func (x *Uint64) CompareAndSwap(old, new uint64) bool { return CompareAndSwapUint64(&x.v, old, new) }

type Bool struct{ v uint32 }

func (x *Bool) Load() bool       { return LoadUint32(&x.v) != 0 }
func (x *Bool) Store(b bool)     { StoreUint32(&x.v, b2u(b)) }
func (x *Bool) Swap(b bool) bool { return SwapUint32(&x.v, b2u(b)) != 0 }
func (x *Bool) CompareAndSwap(old, new bool) bool {
	return CompareAndSwapUint32(&x.v, b2u(old), b2u(new))
}

func b2u(b bool) uint32 {
	if b {
		return 1
	}
	return 0
}
