package chansim

import (
	"testing"

	"verif/tape"
)

// hand-translated deriveJoin(<-chan <-chan int)
func joinCC(in *Chan[*Chan[int]], bug bool) *Chan[int] {
	out := Make[int](0)
	Go(func() {
		wait := WaitGroup{}
		for c, ok := Recv2(in); ok; c, ok = Recv2(in) {
			if !bug {
				wait.Add(1)
			}
			res := c
			Go(func() {
				if bug {
					wait.Add(1)
				}
				for r, ok := Recv2(res); ok; r, ok = Recv2(res) {
					Send(out, r)
				}
				wait.Done()
			})
		}
		wait.Wait()
		Close(out)
	})
	return out
}

func runJoin(seed uint64, bug bool) (*Failure, int, uint64) {
	tp := tape.New(seed)
	s := New(Config{Strategy: int(seed % 2), PCTDepth: 2, PCTLenHint: 40, StepBudget: 5000}, tp)
	got := 0
	f := s.Run(func() {
		in := Make[*Chan[int]](0)
		var ins []*Chan[int]
		for i := 0; i < 2; i++ {
			c := Make[int](0)
			ins = append(ins, c)
			GoHarness("prod", func() {
				for k := 0; k < 2; k++ {
					Send(c, i*10+k)
				}
				Close(c)
			})
		}
		GoHarness("outer", func() {
			for _, c := range ins {
				Send(in, c)
			}
			Close(in)
		})
		out := joinCC(in, bug)
		for _, ok := Recv2(out); ok; _, ok = Recv2(out) {
			got++
		}
	})
	if f == nil && got != 4 {
		f = &Failure{Class: "lost", Detail: "items"}
	}
	return f, s.Steps, s.Hash()
}

func TestJoinGood(t *testing.T) {
	for seed := uint64(0); seed < 20000; seed++ {
		if f, _, _ := runJoin(seed, false); f != nil {
			t.Fatalf("seed %d: %v", seed, f)
		}
	}
}

func TestJoinBug(t *testing.T) {
	n := 0
	classes := map[string]int{}
	for seed := uint64(0); seed < 20000; seed++ {
		if f, _, _ := runJoin(seed, true); f != nil {
			n++
			classes[f.Class]++
		}
	}
	t.Logf("bug found in %d/20000: %v", n, classes)
	if n == 0 {
		t.Fatal("bug never found")
	}
}

func TestDeterminism(t *testing.T) {
	for seed := uint64(0); seed < 500; seed++ {
		_, s1, h1 := runJoin(seed, seed%3 == 0)
		_, s2, h2 := runJoin(seed, seed%3 == 0)
		if s1 != s2 || h1 != h2 {
			t.Fatalf("seed %d nondeterministic: %d/%d %x/%x", seed, s1, s2, h1, h2)
		}
	}
}

func TestRace(t *testing.T) {
	// Do-like: write in goroutine, read after receiving -> no race;
	// read without receiving -> race.
	for _, racy := range []bool{false, true} {
		found := 0
		for seed := uint64(0); seed < 200; seed++ {
			s := New(Config{StepBudget: 1000}, tape.New(seed))
			f := s.Run(func() {
				var v int
				ch := Make[int](0)
				Go(func() {
					v = 7
					W(&v, "v", "w")
					Send(ch, 1)
				})
				if racy {
					Yield()
					_ = *R(&v, "v", "r")
					Recv(ch)
				} else {
					Recv(ch)
					_ = *R(&v, "v", "r")
				}
			})
			if f != nil {
				if f.Class != "race" {
					t.Fatalf("unexpected %v", f)
				}
				found++
			}
		}
		if racy && found != 200 {
			t.Fatalf("race detected in only %d/200 runs (HB race must be schedule independent)", found)
		}
		if !racy && found != 0 {
			t.Fatalf("false race %d", found)
		}
	}
}
