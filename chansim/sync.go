package chansim

import "fmt"

type wgState struct {
	n  int
	vc VC
}

// WaitGroup is the stand-in for sync.WaitGroup (zero value ready to use).
type WaitGroup struct{ st *wgState }

func (w *WaitGroup) state() *wgState {
	if w.st == nil {
		w.st = &wgState{}
	}
	return w.st
}

func (w *WaitGroup) Add(delta int) {
	s, t := me()
	st := w.state()
	t.op, t.wg, t.delta = opWgAdd, st, delta
	s.visible(t)
	t.op, t.wg = opNone, nil
	if delta < 0 {
		st.vc.join(t.vc) // Done releases
		t.vc.tick(t.ID)
	}
	st.n += delta
	s.log(t, fmt.Sprintf("wg.add(%d)", delta), nil, "")
	if st.n < 0 {
		s.Fail("panic:negative-waitgroup", fmt.Sprintf("task %d (%s): negative WaitGroup counter", t.ID, t.Role))
		panic(abortT{})
	}
}

func (w *WaitGroup) Done() { w.Add(-1) }

func (w *WaitGroup) Wait() {
	s, t := me()
	st := w.state()
	t.op, t.wg = opWgWait, st
	s.visible(t)
	t.op, t.wg = opNone, nil
	t.vc.join(st.vc)
	t.vc.tick(t.ID)
	s.log(t, "wg.wait", nil, "")
	// probe: did Wait return while a sender spawned by the same code is
	// still pending? (counted by harnesses through Probe)
}

type muState struct {
	w  bool
	r  int
	vc VC
}

// Mutex / RWMutex stand-ins.
type Mutex struct{ st *muState }
type RWMutex struct{ st *muState }

func (m *Mutex) state() *muState {
	if m.st == nil {
		m.st = &muState{}
	}
	return m.st
}
func (m *RWMutex) state() *muState {
	if m.st == nil {
		m.st = &muState{}
	}
	return m.st
}

func lock(st *muState, write bool) {
	s, t := me()
	t.mu = st
	if write {
		t.op = opLock
	} else {
		t.op = opRLock
	}
	s.visible(t)
	t.op, t.mu = opNone, nil
	if write {
		st.w = true
	} else {
		st.r++
	}
	t.vc.join(st.vc)
	t.vc.tick(t.ID)
	s.log(t, "lock", nil, "")
}

func unlock(st *muState, write bool) {
	s, t := me()
	t.mu = st
	if write {
		t.op = opUnlock
	} else {
		t.op = opRUnlock
	}
	s.visible(t)
	t.op, t.mu = opNone, nil
	if write {
		if !st.w {
			s.Fail("panic:unlock-of-unlocked", fmt.Sprintf("task %d (%s): unlock of unlocked mutex", t.ID, t.Role))
			panic(abortT{})
		}
		st.w = false
	} else {
		if st.r == 0 {
			s.Fail("panic:unlock-of-unlocked", fmt.Sprintf("task %d (%s): RUnlock of unlocked RWMutex", t.ID, t.Role))
			panic(abortT{})
		}
		st.r--
	}
	st.vc.join(t.vc)
	t.vc.tick(t.ID)
	s.log(t, "unlock", nil, "")
}

func (m *Mutex) Lock()      { lock(m.state(), true) }
func (m *Mutex) Unlock()    { unlock(m.state(), true) }
func (m *RWMutex) Lock()    { lock(m.state(), true) }
func (m *RWMutex) Unlock()  { unlock(m.state(), true) }
func (m *RWMutex) RLock()   { lock(m.state(), false) }
func (m *RWMutex) RUnlock() { unlock(m.state(), false) }

// Once stand-in: the first caller runs f; later callers wait for it.
type Once struct {
	m    Mutex
	done bool
}

func (o *Once) Do(f func()) {
	o.m.Lock()
	defer o.m.Unlock()
	if !o.done {
		o.done = true
		f()
	}
}

// AtomicOp is the scheduling point and the synchronisation edge of one
// sync/atomic operation on the variable at addr (sequentially consistent:
// every atomic operation acquires and releases the variable's clock).
func AtomicOp(addr any, what string) {
	s, t := me()
	t.op = opYield
	s.visible(t)
	t.op = opNone
	if s.atomics == nil {
		s.atomics = map[any]*VC{}
	}
	vc := s.atomics[addr]
	if vc == nil {
		vc = &VC{}
		s.atomics[addr] = vc
	}
	t.vc.join(*vc)
	*vc = t.vc.clone()
	t.vc.tick(t.ID)
	s.log(t, "atomic."+what, nil, "")
}
