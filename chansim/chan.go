package chansim

import "fmt"

// core is the untyped channel state; Chan[T] is the typed face.
type core struct {
	name   string
	cap    int
	buf    []any
	closed bool
	closes int
	sends  int // completed sends (for buffered HB slots)
	recvs  int
	slots  []VC // per buffer slot (cap>0)
	closeVC VC
	// harness-visible counters
	SendsAfterClose int
}

// Chan is the stand-in for chan T, <-chan T and chan<- T. A nil *Chan[T] is
// the nil channel: send and receive block for ever, close panics.
type Chan[T any] struct{ c core }

// Make is make(chan T, n).
func Make[T any](n int) *Chan[T] {
	if n < 0 {
		panic("makechan: size out of range")
	}
	ch := &Chan[T]{}
	ch.c.cap = n
	if n > 0 {
		ch.c.slots = make([]VC, n)
	}
	if s := current; s != nil {
		s.nextChanID++
		ch.c.name = fmt.Sprintf("ch%d", s.nextChanID)
	}
	return ch
}

// Named sets a role name on the channel (used in traces, schedule hashes).
func Named[T any](ch *Chan[T], name string) *Chan[T] {
	if ch != nil {
		ch.c.name = name
	}
	return ch
}

func coreOf[T any](ch *Chan[T]) *core {
	if ch == nil {
		return nil
	}
	return &ch.c
}

// Closes returns how many times close succeeded on ch (0 or 1).
func Closes[T any](ch *Chan[T]) int { return ch.c.closes }

// IsClosed reports the channel state (harness use only).
func IsClosed[T any](ch *Chan[T]) bool { return ch.c.closed }

// Len is len(c). It observes state that other tasks change, so it is a
// visible operation (a scheduling point), unlike Cap.
func Len[T any](ch *Chan[T]) int {
	if s := current; s != nil && s.cur != nil {
		t := s.cur
		t.op = opYield
		s.visible(t)
		t.op = opNone
		s.log(t, "len", coreOf(ch), "")
	}
	if ch == nil {
		return 0
	}
	return len(ch.c.buf)
}

// BufLen is for harness bookkeeping (invariants): no scheduling point.
func BufLen[T any](ch *Chan[T]) int {
	if ch == nil {
		return 0
	}
	return len(ch.c.buf)
}

func Cap[T any](ch *Chan[T]) int {
	if ch == nil {
		return 0
	}
	return ch.c.cap
}

// --- happens-before bookkeeping -------------------------------------------

func (s *Sim) hbRendezvous(a, b *Task) {
	a.vc.join(b.vc)
	b.vc = a.vc.clone()
	a.vc.tick(a.ID)
	b.vc.tick(b.ID)
}

func (s *Sim) hbBufSend(t *Task, c *core) {
	slot := c.sends % c.cap
	t.vc.join(c.slots[slot]) // (k-cap)-th receive happens before k-th send completes
	c.slots[slot] = t.vc.clone()
	t.vc.tick(t.ID)
	c.sends++
}

func (s *Sim) hbBufRecv(t *Task, c *core) {
	slot := c.recvs % c.cap
	t.vc.join(c.slots[slot]) // k-th send happens before k-th receive completes
	c.slots[slot] = t.vc.clone()
	t.vc.tick(t.ID)
	c.recvs++
}

// --- operations -------------------------------------------------------------

func (s *Sim) choosePartner(ps []*Task) *Task {
	if len(ps) == 1 {
		return ps[0]
	}
	Probe("chan.partner_choice")
	return ps[s.sched.Intn(len(ps))]
}

// doSend performs a send by t on c (t has been chosen and c is enabled for
// sending). Returns after the operation is complete.
func (s *Sim) doSend(t *Task, c *core, v any) {
	if c.closed {
		c.SendsAfterClose++
		s.log(t, "send!closed", c, "")
		s.Fail("panic:send-on-closed", fmt.Sprintf("task %d (%s) sends on closed channel %s", t.ID, t.Role, c.name))
		panic(abortT{})
	}
	if len(c.buf) == 0 {
		if ps := s.pendingRecv(c, t); len(ps) > 0 {
			p := s.choosePartner(ps)
			s.deliverTo(p, c, v, true)
			if c.cap == 0 {
				s.hbRendezvous(t, p)
			} else {
				// direct hand-off through a buffered channel: same edges as
				// a buffered send followed by the matching receive
				s.hbBufSend(t, c)
				s.hbBufRecv(p, c)
			}
			s.log(t, "send", c, "")
			return
		}
	}
	if len(c.buf) < c.cap {
		c.buf = append(c.buf, v)
		s.hbBufSend(t, c)
		s.log(t, "send", c, "")
		return
	}
	panic("chansim: doSend on a channel that is not enabled")
}

// deliverTo completes the pending receive (plain or select case) of p.
func (s *Sim) deliverTo(p *Task, c *core, v any, ok bool) {
	if p.op == opSelect {
		for i := range p.cases {
			if !p.cases[i].send && p.cases[i].c == c {
				p.selIdx = i
				break
			}
		}
	}
	p.recvVal, p.recvOK = v, ok
	p.op = opResume
	p.cases = nil
}

// doRecv performs a receive by t on c.
func (s *Sim) doRecv(t *Task, c *core) (any, bool) {
	if len(c.buf) > 0 {
		v := c.buf[0]
		c.buf = c.buf[1:]
		s.hbBufRecv(t, c)
		s.log(t, "recv", c, "")
		return v, true
	}
	if ps := s.pendingSend(c, t); len(ps) > 0 && !c.closed {
		p := s.choosePartner(ps)
		var v any
		if p.op == opSelect {
			for i := range p.cases {
				if p.cases[i].send && p.cases[i].c == c {
					p.selIdx = i
					v = p.cases[i].val
					break
				}
			}
		} else {
			v = p.val
		}
		p.op = opResume
		p.cases = nil
		if c.cap == 0 {
			s.hbRendezvous(p, t)
		} else {
			s.hbBufSend(p, c)
			s.hbBufRecv(t, c)
		}
		s.log(t, "recv", c, "")
		return v, true
	}
	if c.closed {
		t.vc.join(c.closeVC)
		t.vc.tick(t.ID)
		s.log(t, "recv-closed", c, "")
		return nil, false
	}
	panic("chansim: doRecv on a channel that is not enabled")
}

// Send is c <- v.
func Send[T any](ch *Chan[T], v T) {
	s, t := me()
	c := coreOf(ch)
	t.op, t.c, t.val = opSend, c, v
	s.visible(t)
	if t.op == opResume { // a receiver took the value
		t.op, t.c, t.val = opNone, nil, nil
		return
	}
	t.op = opNone
	s.doSend(t, c, v)
	t.c, t.val = nil, nil
}

// Recv2 is v, ok := <-c.
func Recv2[T any](ch *Chan[T]) (T, bool) {
	s, t := me()
	c := coreOf(ch)
	t.op, t.c = opRecv, c
	s.visible(t)
	var v any
	var ok bool
	if t.op == opResume {
		v, ok = t.recvVal, t.recvOK
		t.recvVal = nil
	} else {
		t.op = opNone
		v, ok = s.doRecv(t, c)
	}
	t.op, t.c = opNone, nil
	if !ok || v == nil {
		var z T
		if ok {
			// a typed nil / zero sent as interface nil
			return z, true
		}
		return z, false
	}
	return v.(T), true
}

// Recv is <-c.
func Recv[T any](ch *Chan[T]) T { v, _ := Recv2(ch); return v }

// Close is close(c).
func Close[T any](ch *Chan[T]) {
	s, t := me()
	t.op = opClose
	t.c = coreOf(ch)
	s.visible(t)
	t.op = opNone
	c := t.c
	t.c = nil
	if c == nil {
		s.Fail("panic:close-of-nil", fmt.Sprintf("task %d (%s) closes a nil channel", t.ID, t.Role))
		panic(abortT{})
	}
	if c.closed {
		c.closes++
		s.log(t, "close!closed", c, "")
		s.Fail("panic:close-of-closed", fmt.Sprintf("task %d (%s) closes channel %s a second time", t.ID, t.Role, c.name))
		panic(abortT{})
	}
	c.closed = true
	c.closes++
	c.closeVC = t.vc.clone()
	t.vc.tick(t.ID)
	s.log(t, "close", c, "")
	// pending senders on c will panic when scheduled (they are enabled now);
	// pending receivers are enabled now and will observe the close.
}

// RecvCase / SendCase build select clauses. The channel and value expressions
// have already been evaluated, in source order, by the translated code.
func RecvCase[T any](ch *Chan[T]) Case { return Case{send: false, c: coreOf(ch)} }
func SendCase[T any](ch *Chan[T], v T) Case {
	return Case{send: true, c: coreOf(ch), val: v}
}

// As converts the value delivered by Select for a receive case on ch.
func As[T any](ch *Chan[T], v any) T {
	if v == nil {
		var z T
		return z
	}
	return v.(T)
}

// Select performs a select statement. It returns the index of the chosen
// case (-1 for default), and for receive cases the value and ok flag.
func Select(hasDefault bool, cases ...Case) (int, any, bool) {
	s, t := me()
	t.op, t.cases, t.hasDef = opSelect, cases, hasDefault
	s.visible(t)
	if t.op == opResume {
		i, v, ok := t.selIdx, t.recvVal, t.recvOK
		t.op, t.recvVal, t.cases = opNone, nil, nil
		return i, v, ok
	}
	t.op = opNone
	var ready []int
	for i := range cases {
		if s.caseEnabled(t, &cases[i]) {
			ready = append(ready, i)
		}
	}
	t.cases = nil
	if len(ready) == 0 {
		if !hasDefault {
			panic("chansim: select chosen but nothing enabled")
		}
		s.log(t, "select-default", nil, "")
		return -1, nil, false
	}
	if len(ready) > 1 {
		Probe("select.two_ready")
	}
	i := ready[s.sched.Intn(len(ready))]
	cs := cases[i]
	if cs.send {
		s.doSend(t, cs.c, cs.val)
		return i, nil, false
	}
	v, ok := s.doRecv(t, cs.c)
	return i, v, ok
}

// NameOf returns the role name of ch ("" for the nil channel).
func NameOf[T any](ch *Chan[T]) string {
	if ch == nil {
		return ""
	}
	return ch.c.name
}
