// Package chansim is a deterministic scheduler plus channel / select /
// sync primitives for Go code that has been translated by internal/xlate.
//
// Execution model (CHESS-style, sampled): every task is a real goroutine
// that holds or waits for a baton. A task is always parked immediately
// before its next *visible* operation (send, receive, select, close, go,
// WaitGroup/Mutex operation, yield). The scheduler computes the set of
// enabled tasks, draws one from the tape, that task performs its operation
// atomically and runs on (invisible code) to its next visible operation.
// Exactly one task runs at a time and every choice is a tape draw, so a tape
// is one execution. No real channel operation, select or sleep of the code
// under test is involved.
package chansim

import (
	"fmt"
	"os"
	"strings"
	"sync/atomic"
	"time"

	"verif/tape"
)

type opKind uint8

const (
	opNone opKind = iota
	opStart
	opSend
	opRecv
	opSelect
	opClose
	opGo
	opYield
	opWgAdd
	opWgWait
	opLock
	opRLock
	opUnlock
	opRUnlock
	opOnce
	opResume // operation completed by a partner; task only has to run on
	opDone
)

var opNames = [...]string{"none", "start", "send", "recv", "select", "close", "go", "yield", "wg.add", "wg.wait", "lock", "rlock", "unlock", "runlock", "once", "resume", "done"}

func (o opKind) String() string { return opNames[o] }

// Case is one communication clause of a select.
type Case struct {
	send bool
	c    *core
	val  any
}

// Task is one simulated goroutine.
type Task struct {
	ID      int
	Role    string // free-form label given by the spawner ("gen" for code under test)
	Harness bool
	wake    chan struct{}
	done    bool
	fn      func()

	op     opKind
	c      *core
	val    any
	cases  []Case
	hasDef bool
	wg     *wgState
	mu     *muState
	delta  int

	recvVal any
	recvOK  bool
	selIdx  int

	vc       VC
	prio     int // PCT priority
	stallFor int // scheduler withholds the task for this many more steps
	notBefore int
	steps    int
}

type abortT struct{}

// Failure describes why a run was aborted.
type Failure struct {
	Class  string // "panic:send-on-closed", "deadlock", "leak", "step-budget", "race", ...
	Detail string
	Step   int
}

func (f *Failure) Error() string { return fmt.Sprintf("%s at step %d: %s", f.Class, f.Step, f.Detail) }

// Event is one entry of the recorded history.
type Event struct {
	Step int
	Task int
	Op   string
	Ch   string
	Note string
}

// Strategy constants for Config.Strategy.
const (
	StratUniform = iota
	StratPCT
	NStrategies
)

// Config carries the per-run scheduling knobs (all drawn from the tape by
// the caller).
type Config struct {
	Strategy    int
	PCTDepth    int // number of priority change points
	PCTLenHint  int // expected run length used to place change points
	StallProb   int // per-mille chance that a step begins a stall of a random task
	StallMax    int
	DelayStart  int // max steps a freshly spawned task is withheld
	StepBudget  int
	RecordTrace bool
	Procs       int // what runtime.GOMAXPROCS(0) / runtime.NumCPU() report to the code under test (0 = 4)
}

// Sim is one simulated execution. One Sim is live per OS process at a time.
type Sim struct {
	cfg    Config
	sched  *tape.Tape
	tasks  []*Task
	cur    *Task
	back   chan struct{}
	fail   *Failure
	Steps  int
	Switches int
	Trace  []Event
	hash   uint64 // running hash of (task role, op, chan role)
	shadow map[any]*shadow
	atomics map[any]*VC
	Probes map[string]int
	pctChange []int
	nextChanID int
	Untracked []string
	hbeat *int64
	userFail func() // optional invariant evaluated after every step
}

var current *Sim

// heartbeat for the wall-clock watchdog (invisible spin detection)
var heartbeat int64

// StartWatchdog exits the process with code 3 and a "HANG" line on stdout if
// no scheduler step completes within d of wall clock. The tape prefix is
// what replays it; the wall clock is only the detector.
func StartWatchdog(d time.Duration, describe func() string) {
	go func() {
		last := atomic.LoadInt64(&heartbeat)
		lastChange := time.Now()
		for {
			time.Sleep(200 * time.Millisecond)
			h := atomic.LoadInt64(&heartbeat)
			if h != last {
				last, lastChange = h, time.Now()
				continue
			}
			if atomic.LoadInt64(&busy) == 1 && time.Since(lastChange) > d {
				fmt.Printf("HANG %s\n", describe())
				os.Exit(3)
			}
			if atomic.LoadInt64(&busy) == 0 {
				lastChange = time.Now()
			}
		}
	}()
}

var busy int64

// New creates a Sim. sched is the tape fork used for scheduling decisions.
func New(cfg Config, sched *tape.Tape) *Sim {
	s := &Sim{cfg: cfg, sched: sched, back: make(chan struct{}), shadow: map[any]*shadow{}, Probes: map[string]int{}}
	if cfg.StepBudget == 0 {
		s.cfg.StepBudget = 100000
	}
	return s
}

// SetInvariant installs a function evaluated after every step; it reports a
// violation by calling Fail.
func (s *Sim) SetInvariant(f func()) { s.userFail = f }

// Fail aborts the run with a failure of the given class (first failure wins).
func (s *Sim) Fail(class, detail string) {
	if s.fail == nil {
		s.fail = &Failure{Class: class, Detail: detail, Step: s.Steps}
	}
}

func (s *Sim) Failed() *Failure { return s.fail }

// Probe bumps a reach counter.
func Probe(name string) {
	if current != nil {
		current.Probes[name]++
	}
}

// Hash identifies the schedule: the sequence of (task role, op, channel name).
func (s *Sim) Hash() uint64 { return s.hash }

func (s *Sim) spawn(role string, harness bool, parent *Task, fn func()) *Task {
	t := &Task{ID: len(s.tasks), Role: role, Harness: harness, wake: make(chan struct{}), fn: fn, op: opStart}
	if parent != nil {
		t.vc = parent.vc.clone()
		parent.vc.tick(parent.ID)
	}
	t.vc.tick(t.ID)
	if s.cfg.Strategy == StratPCT {
		t.prio = 1000 + s.sched.Intn(1000)
	}
	if s.cfg.DelayStart > 0 && parent != nil {
		t.notBefore = s.Steps + s.sched.Intn(s.cfg.DelayStart+1)
	}
	s.tasks = append(s.tasks, t)
	go func() {
		<-t.wake
		defer func() {
			if r := recover(); r != nil {
				if _, ok := r.(abortT); !ok {
					s.Fail("panic:"+classifyPanic(r), fmt.Sprint(r))
				}
			}
			t.done = true
			t.op = opDone
			s.back <- struct{}{}
		}()
		if s.fail != nil {
			panic(abortT{})
		}
		t.fn()
	}()
	return t
}

func classifyPanic(r any) string {
	m := fmt.Sprint(r)
	switch {
	case strings.Contains(m, "send on closed channel"):
		return "send-on-closed"
	case strings.Contains(m, "close of closed channel"):
		return "close-of-closed"
	case strings.Contains(m, "close of nil channel"):
		return "close-of-nil"
	case strings.Contains(m, "negative WaitGroup counter"):
		return "negative-waitgroup"
	case strings.Contains(m, "WaitGroup is reused"), strings.Contains(m, "WaitGroup misuse"):
		return "waitgroup-misuse"
	case strings.Contains(m, "unlock of unlocked"):
		return "unlock-of-unlocked"
	}
	return "other"
}

// park hands the baton back and blocks until the scheduler selects this task.
func (s *Sim) park(t *Task) {
	s.back <- struct{}{}
	<-t.wake
	if s.fail != nil {
		panic(abortT{})
	}
}

func (s *Sim) enabled(t *Task) bool {
	switch t.op {
	case opSend:
		return t.c != nil && (t.c.closed || len(t.c.buf) < t.c.cap || (len(t.c.buf) == 0 && s.pendingRecv(t.c, t) != nil))
	case opRecv:
		return t.c != nil && (len(t.c.buf) > 0 || t.c.closed || s.pendingSend(t.c, t) != nil)
	case opSelect:
		if t.hasDef {
			return true
		}
		for i := range t.cases {
			if s.caseEnabled(t, &t.cases[i]) {
				return true
			}
		}
		return false
	case opWgWait:
		return t.wg.n == 0
	case opLock:
		return !t.mu.w && t.mu.r == 0
	case opRLock:
		return !t.mu.w
	case opDone, opNone:
		return false
	}
	return true
}

func (s *Sim) caseEnabled(t *Task, c *Case) bool {
	if c.c == nil {
		return false
	}
	if c.send {
		return c.c.closed || len(c.c.buf) < c.c.cap || (len(c.c.buf) == 0 && s.pendingRecv(c.c, t) != nil)
	}
	return len(c.c.buf) > 0 || c.c.closed || s.pendingSend(c.c, t) != nil
}

// pendingRecv returns the parked tasks (other than self) that could take a
// value from c right now: blocked in recv on c, or in a select with a recv
// case on c. Returned in task-id order; nil if none.
func (s *Sim) pendingRecv(c *core, self *Task) []*Task {
	var out []*Task
	for _, u := range s.tasks {
		if u == self || u.done {
			continue
		}
		switch u.op {
		case opRecv:
			if u.c == c {
				out = append(out, u)
			}
		case opSelect:
			for i := range u.cases {
				if !u.cases[i].send && u.cases[i].c == c {
					out = append(out, u)
					break
				}
			}
		}
	}
	return out
}

func (s *Sim) pendingSend(c *core, self *Task) []*Task {
	var out []*Task
	for _, u := range s.tasks {
		if u == self || u.done {
			continue
		}
		switch u.op {
		case opSend:
			if u.c == c {
				out = append(out, u)
			}
		case opSelect:
			for i := range u.cases {
				if u.cases[i].send && u.cases[i].c == c {
					out = append(out, u)
					break
				}
			}
		}
	}
	return out
}

// Run executes main as task 0 and schedules until quiescence or failure.
// It returns the failure, if any. The caller inspects harness-recorded
// history afterwards.
func (s *Sim) Run(main func()) *Failure {
	current = s
	atomic.StoreInt64(&busy, 1)
	defer func() { atomic.StoreInt64(&busy, 0); current = nil }()
	s.spawn("main", true, nil, main)
	if s.cfg.Strategy == StratPCT {
		n := s.cfg.PCTLenHint
		if n < 8 {
			n = 8
		}
		for i := 0; i < s.cfg.PCTDepth; i++ {
			s.pctChange = append(s.pctChange, 1+s.sched.Intn(n))
		}
	}
	var lastTask *Task
	for s.fail == nil {
		// tasks whose operation was completed by a partner run on first
		// (no choice involved: invisible code only).
		progressed := true
		for progressed && s.fail == nil {
			progressed = false
			for _, t := range s.tasks {
				if t.op == opResume && !t.done {
					s.runTask(t)
					progressed = true
					if s.fail != nil {
						break
					}
				}
			}
		}
		if s.fail != nil {
			break
		}
		var en []*Task
		alive := 0
		for _, t := range s.tasks {
			if t.done {
				continue
			}
			alive++
			if s.enabled(t) {
				en = append(en, t)
			}
		}
		if alive == 0 {
			break
		}
		if len(en) == 0 {
			s.reportStuck()
			break
		}
		if s.Steps >= s.cfg.StepBudget {
			s.Fail("step-budget", fmt.Sprintf("%d steps without quiescence (livelock or unbounded work); blocked/alive: %s", s.Steps, s.describeAlive()))
			break
		}
		t := s.pick(en)
		if t != lastTask {
			s.Switches++
			lastTask = t
		}
		s.Steps++
		t.steps++
		atomic.AddInt64(&heartbeat, 1)
		s.runTask(t)
		if s.userFail != nil && s.fail == nil {
			s.userFail()
		}
	}
	if s.fail != nil {
		s.abortAll()
	}
	return s.fail
}

func (s *Sim) runTask(t *Task) {
	s.cur = t
	t.wake <- struct{}{}
	<-s.back
	s.cur = nil
}

func (s *Sim) abortAll() {
	for _, t := range s.tasks {
		if !t.done {
			t.wake <- struct{}{}
			<-s.back
		}
	}
}

func (s *Sim) describeAlive() string {
	var sb strings.Builder
	for _, t := range s.tasks {
		if t.done {
			continue
		}
		ch := ""
		if t.c != nil {
			ch = t.c.name
		}
		fmt.Fprintf(&sb, "[task %d %s %s %s]", t.ID, t.Role, t.op, ch)
	}
	return sb.String()
}

func (s *Sim) reportStuck() {
	harness := false
	for _, t := range s.tasks {
		if !t.done && t.Harness {
			harness = true
		}
	}
	if harness {
		s.Fail("deadlock", "no task enabled: "+s.describeAlive())
	} else {
		s.Fail("leak", "workload complete but tasks of the code under test are blocked for ever: "+s.describeAlive())
	}
}

func (s *Sim) pick(en []*Task) *Task {
	// stalls / delayed start: withhold tasks unless nothing else is enabled
	if s.cfg.StallProb > 0 && s.sched.Intn(1000) < s.cfg.StallProb {
		v := en[s.sched.Intn(len(en))]
		v.stallFor = 1 + s.sched.Intn(s.cfg.StallMax+1)
		Probe("sched.stall_started")
	}
	var cand []*Task
	for _, t := range en {
		if t.stallFor > 0 {
			t.stallFor--
			continue
		}
		if t.notBefore > s.Steps {
			continue
		}
		cand = append(cand, t)
	}
	if len(cand) == 0 {
		cand = en
	} else if len(cand) < len(en) {
		Probe("sched.withheld_applied")
	}
	switch s.cfg.Strategy {
	case StratPCT:
		for i, cp := range s.pctChange {
			if cp == s.Steps+1 {
				// demote the currently highest-priority candidate
				best := cand[0]
				for _, t := range cand {
					if t.prio > best.prio {
						best = t
					}
				}
				best.prio = i
				Probe("sched.pct_change")
			}
		}
		best := cand[0]
		for _, t := range cand {
			if t.prio > best.prio {
				best = t
			}
		}
		return best
	}
	return cand[s.sched.Intn(len(cand))]
}

// visible is called by a task before each visible operation: it records the
// pending op and parks. On return the task has been chosen (or its op was
// completed by a partner: t.op == opResume).
func (s *Sim) visible(t *Task) {
	s.park(t)
}

func (s *Sim) log(t *Task, op string, c *core, note string) {
	name := ""
	if c != nil {
		name = c.name
	}
	h := s.hash
	h = (h ^ tape.MixS(t.Role)) * 1099511628211
	h = (h ^ tape.MixS(op)) * 1099511628211
	h = (h ^ tape.MixS(name)) * 1099511628211
	s.hash = h
	if s.cfg.RecordTrace {
		s.Trace = append(s.Trace, Event{s.Steps, t.ID, op, name, note})
	}
}

func me() (*Sim, *Task) {
	s := current
	if s == nil || s.cur == nil {
		panic("chansim: primitive used outside a simulated task")
	}
	return s, s.cur
}

// Go spawns fn as a new task of the code under test.
func Go(fn func()) { goRole("gen", false, fn) }

// GoHarness spawns a harness task (producer, consumer, ...).
func GoHarness(role string, fn func()) { goRole(role, true, fn) }

func goRole(role string, harness bool, fn func()) {
	s, t := me()
	t.op = opGo
	s.visible(t)
	t.op = opNone
	nt := s.spawn(role, harness, t, fn)
	s.log(t, "go", nil, fmt.Sprint(nt.ID))
}

// Yield is a pure scheduling point.
func Yield() {
	s, t := me()
	t.op = opYield
	s.visible(t)
	t.op = opNone
	s.log(t, "yield", nil, "")
}

// GOMAXPROCS stands in for runtime.GOMAXPROCS: the simulated machine has
// cfg.Procs processors (a per-run choice); setting the value is accepted and
// ignored, the previous value is returned. The scheduler itself interleaves
// tasks at every operation regardless of it; code that sizes a pool or a
// semaphore by it sees small and large machines.
func GOMAXPROCS(n int) int {
	s, _ := me()
	if s.cfg.Procs > 0 {
		return s.cfg.Procs
	}
	return 4
}

// NumCPU stands in for runtime.NumCPU.
func NumCPU() int { return GOMAXPROCS(0) }

// Self returns the running task's id (for harness bookkeeping).
func Self() int { _, t := me(); return t.ID }

// Tasks returns all tasks created in the run.
func (s *Sim) Tasks() []*Task { return s.tasks }

// Done reports whether the task has finished.
func (t *Task) Done() bool { return t.done }
