package chansim

import "fmt"

// VC is a vector clock indexed by task id.
type VC []uint32

func (v VC) clone() VC { return append(VC(nil), v...) }

func (v *VC) tick(id int) {
	for len(*v) <= id {
		*v = append(*v, 0)
	}
	(*v)[id]++
}

func (v *VC) join(o VC) {
	for len(*v) < len(o) {
		*v = append(*v, 0)
	}
	for i, x := range o {
		if x > (*v)[i] {
			(*v)[i] = x
		}
	}
}

func (v VC) get(id int) uint32 {
	if id < len(v) {
		return v[id]
	}
	return 0
}

type epoch struct {
	task  int
	clock uint32
	site  string
}

type shadow struct {
	name  string
	write epoch
	hasW  bool
	reads []epoch // at most one per task
}

// hb reports whether access e happened before the current point of task t.
func hb(e epoch, t *Task) bool { return e.clock <= t.vc.get(e.task) }

func (s *Sim) access(ptr any, name, site string, write bool) {
	t := s.cur
	if t == nil {
		return
	}
	sh := s.shadow[ptr]
	if sh == nil {
		sh = &shadow{name: name}
		s.shadow[ptr] = sh
	}
	now := epoch{t.ID, t.vc.get(t.ID), site}
	if sh.hasW && sh.write.task != t.ID && !hb(sh.write, t) {
		kind := "read"
		if write {
			kind = "write"
		}
		s.Fail("race", fmt.Sprintf("%s of %s at %s by task %d (%s) is concurrent with write at %s by task %d", kind, name, site, t.ID, t.Role, sh.write.site, sh.write.task))
		panic(abortT{})
	}
	if write {
		for _, r := range sh.reads {
			if r.task != t.ID && !hb(r, t) {
				s.Fail("race", fmt.Sprintf("write of %s at %s by task %d (%s) is concurrent with read at %s by task %d", name, site, t.ID, t.Role, r.site, r.task))
				panic(abortT{})
			}
		}
		sh.write, sh.hasW = now, true
		sh.reads = sh.reads[:0]
		return
	}
	for i := range sh.reads {
		if sh.reads[i].task == t.ID {
			sh.reads[i] = now
			return
		}
	}
	sh.reads = append(sh.reads, now)
}

// R records a read of the shared variable *p and returns p, so that a read
// of x is translated to (*chansim.R(&x, "x", "file:line")).
func R[T any](p *T, name, site string) *T {
	if s := current; s != nil {
		s.access(p, name, site, false)
	}
	return p
}

// W records a write of the shared variable *p; the translator places it
// directly after the assigning statement (same scheduler step, same clock).
func W[T any](p *T, name, site string) {
	if s := current; s != nil {
		s.access(p, name, site, true)
	}
}
