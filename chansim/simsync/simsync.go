// Package simsync is what the translator substitutes for import "sync".
package simsync

import "verif/chansim"

type WaitGroup = chansim.WaitGroup
type Mutex = chansim.Mutex
type RWMutex = chansim.RWMutex
type Once = chansim.Once
