// Package seqrt is linked into the generated seqsim harness packages (C16,
// C18): canonical structural encodings used by the reference models.
package seqrt

import (
	"fmt"
	"math"
	"reflect"
	"sort"
	"strings"
)

var nanCounter int

// Key encodes v structurally: same nil-ness, lengths, keys and leaves give
// the same key; pointer identity, capacity and map insertion order do not
// matter; +0 and -0 are one value; every NaN is its own class (as == says).
func Key(vs ...any) string {
	var sb strings.Builder
	for _, v := range vs {
		enc(&sb, reflect.ValueOf(v))
		sb.WriteByte(';')
	}
	return sb.String()
}

func enc(sb *strings.Builder, v reflect.Value) {
	if !v.IsValid() {
		sb.WriteString("<nil>")
		return
	}
	switch v.Kind() {
	case reflect.Ptr:
		if v.IsNil() {
			sb.WriteString("nilptr")
			return
		}
		sb.WriteString("&")
		enc(sb, v.Elem())
	case reflect.Interface:
		if v.IsNil() {
			sb.WriteString("niliface")
			return
		}
		enc(sb, v.Elem())
	case reflect.Slice:
		if v.IsNil() {
			sb.WriteString("nilslice")
			return
		}
		fallthrough
	case reflect.Array:
		sb.WriteString("[")
		for i := 0; i < v.Len(); i++ {
			enc(sb, v.Index(i))
			sb.WriteByte(',')
		}
		sb.WriteString("]")
	case reflect.Map:
		if v.IsNil() {
			sb.WriteString("nilmap")
			return
		}
		var es []string
		for _, k := range v.MapKeys() {
			var e strings.Builder
			enc(&e, k)
			e.WriteByte(':')
			enc(&e, v.MapIndex(k))
			es = append(es, e.String())
		}
		sort.Strings(es)
		sb.WriteString("map{" + strings.Join(es, ",") + "}")
	case reflect.Struct:
		sb.WriteString("{")
		for i := 0; i < v.NumField(); i++ {
			enc(sb, v.Field(i))
			sb.WriteByte(',')
		}
		sb.WriteString("}")
	case reflect.Float32, reflect.Float64:
		f := v.Float()
		switch {
		case f == 0:
			sb.WriteString("0")
		case math.IsNaN(f):
			nanCounter++
			fmt.Fprintf(sb, "NaN#%d", nanCounter)
		default:
			fmt.Fprintf(sb, "%v", f)
		}
	case reflect.String:
		fmt.Fprintf(sb, "%q", v.String())
	case reflect.Bool:
		fmt.Fprintf(sb, "%v", v.Bool())
	case reflect.Int, reflect.Int8, reflect.Int16, reflect.Int32, reflect.Int64:
		fmt.Fprintf(sb, "%d", v.Int())
	case reflect.Uint, reflect.Uint8, reflect.Uint16, reflect.Uint32, reflect.Uint64, reflect.Uintptr:
		fmt.Fprintf(sb, "%d", v.Uint())
	case reflect.Complex64, reflect.Complex128:
		fmt.Fprintf(sb, "%v", v.Complex())
	default:
		fmt.Fprintf(sb, "?%s", v.Kind())
	}
}

// Hash64 is a small string hash the instrumented functions use to derive
// deterministic results from an argument class.
func Hash64(s string) uint64 {
	h := uint64(1469598103934665603)
	for i := 0; i < len(s); i++ {
		h ^= uint64(s[i])
		h *= 1099511628211
	}
	return h
}

// Problem is one failed oracle clause reported by a generated package.
type Problem struct {
	Shape  string `json:"shape"`
	Clause string `json:"clause"`
	Fault  string `json:"fault"`
	Detail string `json:"detail"`
}

// Result of running one generated package.
type Result struct {
	Shape    string    `json:"shape"`
	Cases    int       `json:"cases"`  // fault points / histories executed
	Calls    int       `json:"calls"`  // stage or f invocations observed
	Faults   int       `json:"faults"` // injected failures that fired
	Problems []Problem `json:"problems"`
	Sample   string    `json:"sample"`
	// counters of the map iteration seam, cumulative for the driver process
	MapRanges    int `json:"map_ranges"`
	Uncontrolled int `json:"map_ranges_uncontrolled"`
}

// ---- map iteration seam -----------------------------------------------------

var (
	keysCount    = map[string]int{}
	MapRanges    int // ranges over maps with more than one key that the seam ordered
	Uncontrolled int // ranges whose key order could not be canonicalised (keys that hold pointers)
)

// Keys returns the keys of m in an order the harness owns: the keys are put in
// a canonical order (by their Key encoding) and then permuted by a function of
// the call site and of how often that site has run in this process. Any order
// is a legal behaviour of `range m`; consecutive visits of one site see
// different orders, so code whose result depends on the order shows it, and
// the same process always sees the same orders (no runtime randomness).
// Every range over a map in the generated code under test is rewritten to go
// through here (geninst.RewriteMapRanges).
func Keys[K comparable, V any](m map[K]V, site string) []K {
	keys := make([]K, 0, len(m))
	for k := range m {
		keys = append(keys, k)
	}
	if len(keys) < 2 {
		return keys
	}
	enc := make(map[K]string, len(keys))
	for _, k := range keys {
		rv := reflect.ValueOf(k)
		if holdsPointer(rv.Type()) {
			Uncontrolled++
			return keys
		}
		enc[k] = Key(k)
	}
	sort.Slice(keys, func(i, j int) bool { return enc[keys[i]] < enc[keys[j]] })
	n := keysCount[site]
	keysCount[site]++
	MapRanges++
	h := Hash64(fmt.Sprint(site, "#", n))
	// Fisher-Yates driven by a splitmix stream seeded from (site, visit number)
	for i := len(keys) - 1; i > 0; i-- {
		h += 0x9e3779b97f4a7c15
		z := h
		z = (z ^ (z >> 30)) * 0xbf58476d1ce4e5b9
		z = (z ^ (z >> 27)) * 0x94d049bb133111eb
		z ^= z >> 31
		j := int(z % uint64(i+1))
		keys[i], keys[j] = keys[j], keys[i]
	}
	return keys
}

func holdsPointer(t reflect.Type) bool {
	switch t.Kind() {
	case reflect.Ptr, reflect.UnsafePointer, reflect.Chan, reflect.Interface, reflect.Func:
		return true
	case reflect.Array:
		return holdsPointer(t.Elem())
	case reflect.Struct:
		for i := 0; i < t.NumField(); i++ {
			if holdsPointer(t.Field(i).Type) {
				return true
			}
		}
	}
	return false
}
